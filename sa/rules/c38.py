"""
C38  Temporary hoisting and stack/pool allocation (storage-sufficiency clause only).

"... with enough storage for every temporary on every path" has necessary
conditions that are visible in the shape of the pool allocator:
 R1  what is counted is what is consumed: in ``_create_stack_allocation`` the
     amount added to the running ``stack_size`` and the amount by which the stack
     pointer advances are the *same* local expression (the rounded-up size of the
     array), possibly through the inverse unit conversion (``ISHFT(x, 3)`` for a
     pointer in bytes against ``ISHFT(.., -3)`` words), and the rounding constant
     matches the shift (``2**3 - 1``).
 R2  every temporary is counted: in ``apply_pool_allocator_to_temporaries`` the
     loop that associates a pointer with a temporary is the loop that accumulates
     the size, unconditionally, threading the accumulator through every
     iteration; the accumulated value is what the function returns and what the
     item publishes as its ``stack_size``.
 R3  callees are included on every path: ``_determine_stack_size`` visits every
     call to a successor (no early exit), adds the local size to *each* callee
     size, and combines several call sites by ``MAX`` over all of them.
 R4  the driver allocates what was computed: the size handed to
     ``create_pool_allocator`` is the value returned by ``_determine_stack_size``.
 R5  hoisting keeps callee dummies and caller actuals aligned: the analysis
     fills two parallel lists per item -- ``to_hoist`` (what becomes a dummy of the
     routine) and ``hoist_variables`` (what its callers pass) -- and they stay
     parallel: both are initialised from the same variable list without filters
     and every later mutation extends both with the same list; the
     transformation appends the dummies from ``to_hoist`` and the actual arguments
     from the successor's ``hoist_variables`` unfiltered and in order.
 R6  no bound of an array section is tested for truth in the stack / pool
     transformations (``loki/transformations/temporaries``): ``d.lower or
     <declared bound>`` takes an explicit bound 0 -- a falsy ``IntLiteral`` -- for an
     absent one and maps the section onto more of the stack than it covers.
 R7  every access to a stack-backed temporary is relative to that temporary's
     position: in ``DirectIdxStackTransformation._map_temporary_array`` the tuple
     from which the stack subscript is summed contains the position variable of
     the temporary whatever the shape of the simplified offset (evaluated for a
     sum and for a single term).
 R8  the extent of a ranged dimension is ``upper - lower + 1``: every ``Sum`` built
     from the bounds of one dimension in the stack / pool transformations is, as
     a linear normal form over the constructor tree, exactly that.
 R9  column-major linearisation (raw-stack and direct-index variants): where an
     offset is accumulated over the dimensions as ``offset = Sum((offset,
     Product((index, stride))))``, the stride is defined before the loop, used
     before it is updated and updated unconditionally as ``Product((stride,
     extent))`` -- the running product of the extents already passed; any other
     recurrence maps distinct elements of a temporary of rank >= 4 to one slot.
Not decided: behavioural equivalence of hoisted / pool-allocated code, the size
arithmetic of each array (dimension products, ``C_SIZEOF``), and the other
stack transformations (raw stack, Fortran-pointer and direct-index variants).
"""
import ast

from sa import exprs as X
from sa.model import AnalysisError
from sa.mutate import Mutant

PROP = 'C38'

META = dict(
    technique='def-use agreement inside the pool allocator: the expression accumulated into the stack size vs the expression the '
              'stack pointer is advanced by; loop / accumulator threading; shape of the callee-size combination (sum with the local '
              'size, MAX over call sites); constant agreement of rounding and shifts',
    level='Decides structural necessary conditions of the storage-sufficiency clause only: counted == consumed per temporary, every '
          'temporary and every successor call site contributes, combination by local + MAX(callees), the driver allocates the computed '
          'size. Does NOT decide behavioural equivalence, hoisting, or the per-array size arithmetic.',
    note='Claimed for the storage clause of the pool allocator (TemporariesPoolAllocatorTransformation).',
    ref='DESIGN.md section 3, C38',
)

FILE = 'loki/transformations/temporaries/pool_allocator.py'
CLS = 'TemporariesPoolAllocatorTransformation'


def _names(e):
    return {n.id for n in ast.walk(e) if isinstance(n, ast.Name)}


def run(ctx):
    m = ctx.model
    ctx.rule('R1', '_create_stack_allocation: stack_size += S and stack pointer += S (or the inverse unit conversion of S) for the same local S; '
                   'rounding constant == 2**shift - 1')
    ctx.rule('R2', 'apply_pool_allocator_to_temporaries: one unconditional loop associates the pointer and threads the size accumulator; '
                   'the accumulator is returned and published as stack_size')
    ctx.rule('R3', '_determine_stack_size: every successor call contributes; local size added to each; several call sites combined by MAX over all')
    ctx.rule('R4', 'driver: create_pool_allocator receives the value of _determine_stack_size')
    T = m.get_class(FILE, CLS)
    ca = T.function('_create_stack_allocation')
    ap = T.function('apply_pool_allocator_to_temporaries')
    ds = T.function('_determine_stack_size')
    ts = T.function('transform_subroutine')
    for nm, f in (('_create_stack_allocation', ca), ('apply_pool_allocator_to_temporaries', ap), ('_determine_stack_size', ds), ('transform_subroutine', ts)):
        if f is None:
            raise AnalysisError(f'{CLS}.{nm} vanished')
    # ---- R1
    params = [a.arg for a in ca.node.args.args]
    # the accumulator parameter: re-assigned from Sum((<itself>, S)) and returned
    acc = [a for a in ast.walk(ca.node) if isinstance(a, ast.Assign) and isinstance(a.targets[0], ast.Name) and a.targets[0].id in params
           and 'Sum(' in ast.unparse(a.value) and a.targets[0].id in _names(a.value)]
    if len(acc) != 1:
        raise AnalysisError('_create_stack_allocation: the statement accumulating the stack size was not found')
    accn = acc[0].targets[0].id
    counted = _names(acc[0].value) - {accn, 'simplify', 'Sum'}
    if len(counted) != 1:
        raise AnalysisError(f'_create_stack_allocation: accumulated quantity not a single local ({sorted(counted)})')
    S = counted.pop()
    # pointer increments: Assignment(lhs=<ptr param>, rhs=Sum((<ptr param>, X)))
    incs = []
    for c in ast.walk(ca.node):
        if isinstance(c, ast.Call) and (X.dotted_attr(c.func) or '').endswith('Assignment'):
            kw = {k.arg: k.value for k in c.keywords}
            if 'lhs' in kw and 'rhs' in kw and isinstance(kw['lhs'], ast.Name) and kw['lhs'].id in params and 'Sum(' in ast.unparse(kw['rhs']) \
                    and kw['lhs'].id in _names(kw['rhs']):
                incs.append((c, kw['lhs'].id, kw['rhs']))
    ctx.floor('R1', 'stack pointer increments', len(incs), 1)
    # the last definition of S before the accumulation
    sdefs = [a for a in ast.walk(ca.node) if isinstance(a, ast.Assign) and any(isinstance(t, ast.Name) and t.id == S for t in a.targets)]
    late = [a.lineno for a in sdefs if a.lineno > acc[0].lineno]
    for c, ptr, rhs in incs:
        used = _names(rhs) - {ptr, 'Sum'}
        inst = f'_create_stack_allocation:pointer-increment@{ptr}'
        where = f'{ca.module.relpath}:{c.lineno}'
        if S not in used:
            ctx.violation('R1', '_create_stack_allocation:counted-vs-consumed', where,
                          f'the stack pointer advances by `{ast.unparse(rhs)}` while the stack size grows by `{S}`: the storage reserved for a '
                          f'temporary differs from the storage it consumes')
            continue
        # anything between S and the pointer other than the inverse unit conversion?
        conv = [x for x in ast.walk(rhs) if isinstance(x, ast.Call) and x is not rhs and S in _names(x) and 'Sum' not in ast.unparse(x.func)]
        ok = True
        for x in conv:
            shift = [a for a in ast.walk(x) if isinstance(a, ast.Constant) and isinstance(a.value, int)]
            back = [int(v.operand.value) for a in sdefs for v in ast.walk(a.value)
                    if isinstance(v, ast.UnaryOp) and isinstance(v.op, ast.USub) and isinstance(v.operand, ast.Constant)]
            if not ('clone' in ast.unparse(x.func) and shift and back and shift[-1].value == back[-1]):
                ok = False
        if late:
            ok = False
        (ctx.judge('R1', inst, facts={'counted': S, 'advanced_by': ast.unparse(rhs)}) if ok else
         ctx.violation('R1', '_create_stack_allocation:counted-vs-consumed', where,
                       f'the stack pointer advances by `{ast.unparse(rhs)}`, which is not `{S}` (nor its inverse unit conversion) as counted '
                       f'into the stack size'))
    # rounding constant vs shift
    consts = []
    for a in sdefs:
        for v in ast.walk(a.value):
            if isinstance(v, ast.Call) and 'Sum' in ast.unparse(v.func):
                consts += [c.value for c in ast.walk(v) if isinstance(c, ast.Constant) and isinstance(c.value, int)]
    shifts = [int(v.operand.value) for a in sdefs for v in ast.walk(a.value)
              if isinstance(v, ast.UnaryOp) and isinstance(v.op, ast.USub) and isinstance(v.operand, ast.Constant)]
    if consts and shifts:
        ok = consts[-1] == 2 ** shifts[-1] - 1
        (ctx.judge('R1', 'rounding constant matches the shift', facts={'add': consts[-1], 'shift': shifts[-1]}) if ok else
         ctx.violation('R1', '_create_stack_allocation:rounding', ca.where,
                       f'the size is rounded as (bytes + {consts[-1]}) >> {shifts[-1]}: not a round-up to the allocation unit, arrays whose '
                       f'byte size is not a multiple of {2 ** shifts[-1]} get too little storage'))
    else:
        raise AnalysisError('_create_stack_allocation: rounding (Sum((size, k)) shifted by -n) not found')
    # ---- R2
    loops = [l for l in ast.walk(ap.node) if isinstance(l, ast.For) and any(
        isinstance(c, ast.Call) and (X.dotted_attr(c.func) or '').endswith('_create_stack_allocation') for c in ast.walk(l))]
    if len(loops) != 1:
        raise AnalysisError('apply_pool_allocator_to_temporaries: the allocation loop was not found')
    lp = loops[0]
    call_st = [(st, g) for st, g in X.nodes_with_guards(lp, lambda x: isinstance(x, ast.Assign) and any(
        isinstance(c, ast.Call) and (X.dotted_attr(c.func) or '').endswith('_create_stack_allocation') for c in ast.walk(x.value)))]
    st, guards = call_st[0]
    tgt = st.targets[0]
    accv = tgt.elts[1].id if isinstance(tgt, ast.Tuple) and len(tgt.elts) == 2 and isinstance(tgt.elts[1], ast.Name) else None
    callx = next(c for c in ast.walk(st.value) if isinstance(c, ast.Call) and (X.dotted_attr(c.func) or '').endswith('_create_stack_allocation'))
    threaded = accv is not None and any(isinstance(a, ast.Name) and a.id == accv for a in callx.args)
    exits = [n for n in ast.walk(lp) if isinstance(n, (ast.Break, ast.Continue)) and n.lineno < st.lineno]
    rets = [r for r in ast.walk(ap.node) if isinstance(r, ast.Return) and r.value is not None]
    ok = threaded and not guards and not exits and all(isinstance(r.value, ast.Name) and r.value.id == accv for r in rets) and rets
    ptr_in_loop = any('POINTER(' in ast.unparse(n) for n in ast.walk(lp))
    if ok and ptr_in_loop:
        ctx.judge('R2', 'every pointer-associated temporary is accumulated', facts={'accumulator': accv})
    else:
        ctx.violation('R2', 'apply_pool_allocator_to_temporaries:accumulation', f'{ap.module.relpath}:{st.lineno}',
                      f'the size accumulator `{accv}` is not threaded unconditionally through every iteration of the allocation loop and '
                      f'returned (guards {guards}, early exits {len(exits)}, returns {[ast.unparse(r.value) for r in rets]}): some temporary '
                      f'is placed on the stack without being counted')
    pub = [a for a in ast.walk(ts.node) if isinstance(a, ast.Assign) and isinstance(a.targets[0], ast.Subscript)
           and isinstance(a.targets[0].slice, ast.Constant) and a.targets[0].slice.value == 'stack_size']
    kdefs = X.names_assigned_from(ts.node, 'self._determine_stack_size(')
    ok = pub and all(isinstance(a.value, ast.Name) and a.value.id in kdefs for a in pub)
    kernel_call = [c for c in ast.walk(ts.node) if isinstance(c, ast.Call) and (X.dotted_attr(c.func) or '') == 'self._determine_stack_size'
                   and len(c.args) >= 3]
    local_names = X.names_assigned_from(ts.node, 'self.apply_pool_allocator_to_temporaries(')
    ok = ok and any(isinstance(c.args[2], ast.Name) and c.args[2].id in local_names for c in kernel_call)
    (ctx.judge('R2', 'kernel publishes local + callees as stack_size') if ok else
     ctx.violation('R2', 'transform_subroutine:published-size', ts.where,
                   "the kernel's published trafo_data['stack_size'] is not _determine_stack_size(routine, successors, <local size>)"))
    # ---- R3
    sizes = None
    for l in ast.walk(ds.node):
        if isinstance(l, ast.For) and 'CallStatement' in ast.unparse(l.iter):
            cvar = l.target.id if isinstance(l.target, ast.Name) else None
            aug = [a for a in ast.walk(l) if isinstance(a, ast.AugAssign) and isinstance(a.target, ast.Name)]
            app = [c for c in ast.walk(l) if isinstance(c, ast.Call) and isinstance(c.func, ast.Attribute) and c.func.attr in ('append', 'extend', 'add')
                   and isinstance(c.func.value, ast.Name)]
            keyed = [a for a in ast.walk(l) if isinstance(a, ast.Assign) and isinstance(a.targets[0], ast.Subscript)
                     and isinstance(a.targets[0].value, ast.Name) and 'stack_size' in ast.unparse(a.value).lower()]
            if keyed and not aug and not app:
                k = keyed[0]
                sizes = k.targets[0].value.id
                ctx.violation('R3', '_determine_stack_size:one-entry-per-callee', f'{ds.module.relpath}:{k.lineno}',
                              f'`{ast.unparse(k)}` stores the requirement of a call site under a key (`{ast.unparse(k.targets[0].slice)}`) that does '
                              f'not distinguish call sites: a later call to the same routine overwrites an earlier one, and only the last call\'s '
                              f'actual arguments reach the MAX -- a larger earlier call overruns its stack')
                continue
            if aug or app:
                sizes = aug[0].target.id if aug else app[0].func.value.id
                early = [n for n in ast.walk(l) if isinstance(n, (ast.Break, ast.Return))]
                (ctx.judge('R3', 'every successor call contributes') if not early else
                 ctx.violation('R3', '_determine_stack_size:early-exit', f'{ds.module.relpath}:{early[0].lineno}',
                               'the scan of successor calls stops early: later call sites with a larger stack requirement are ignored'))
    if sizes is None:
        raise AnalysisError('_determine_stack_size: collection of successor stack sizes not found')
    lpar = [a.arg for a in ds.node.args.args][3]
    addl = [a for a in ast.walk(ds.node) if isinstance(a, ast.Assign) and any(isinstance(t, ast.Name) and t.id == sizes for t in a.targets)
            and isinstance(a.value, ast.ListComp) and 'Sum(' in ast.unparse(a.value.elt) and lpar in _names(a.value.elt)]
    ok = bool(addl) and all(isinstance(a.value.generators[0].iter, ast.Name) and a.value.generators[0].iter.id == sizes
                            and not a.value.generators[0].ifs for a in addl)
    (ctx.judge('R3', 'local size added to each callee size') if ok else
     ctx.violation('R3', '_determine_stack_size:local-plus-callee', ds.where,
                   f'the local stack size `{lpar}` is not added to every successor size: the callee stack starts after the local temporaries, so '
                   f'the total must be local + callee for each call site'))
    comb = [c for c in ast.walk(ds.node) if isinstance(c, ast.Call) and (X.dotted_attr(c.func) or '').endswith('InlineCall')
            and any(k.arg == 'function' for k in c.keywords)]
    if not comb:
        raise AnalysisError('_determine_stack_size: combination of several call sites not found')
    for c in comb:
        kw = {k.arg: k.value for k in c.keywords}
        fname = next((x.value for x in ast.walk(kw['function']) if isinstance(x, ast.Constant) and isinstance(x.value, str)), None)
        allp = 'parameters' in kw and any(isinstance(n, ast.Name) and n.id == sizes for n in ast.walk(kw['parameters'])) and not any(
            isinstance(n, (ast.Subscript, ast.Slice)) for n in ast.walk(kw['parameters']))
        if str(fname).upper() == 'MAX' and allp:
            ctx.judge('R3', 'several call sites combined by MAX over all', facts={'function': fname})
        else:
            ctx.violation('R3', '_determine_stack_size:combination', f'{ds.module.relpath}:{c.lineno}',
                          f'call sites are combined by `{fname}` over `{ast.unparse(kw.get("parameters"))}`: the stack must be large enough for the '
                          f'most demanding call site (MAX over all of them)')
    single = [r for r in ast.walk(ds.node) if isinstance(r, ast.Return) and isinstance(r.value, ast.Subscript)
              and isinstance(r.value.value, ast.Name) and r.value.value.id == sizes]
    for r, guards in X.nodes_with_guards(ds.node, lambda x: isinstance(x, ast.Return) and x in single):
        ok = any(g.replace(' ', '') == f'len({sizes})==1' for g in guards)
        (ctx.judge('R3', 'single element returned only when there is exactly one') if ok else
         ctx.violation('R3', '_determine_stack_size:single', f'{ds.module.relpath}:{r.lineno}',
                       f'`{ast.unparse(r)}` under {guards}: one call site is taken although there may be several'))
    # ---- R4
    dn = X.names_assigned_from(ts.node, 'self._determine_stack_size(')
    cp = [c for c in ast.walk(ts.node) if isinstance(c, ast.Call) and (X.dotted_attr(c.func) or '') == 'self.create_pool_allocator']
    ok = bool(cp) and all(len(c.args) >= 2 and isinstance(c.args[1], ast.Name) and c.args[1].id in dn for c in cp)
    (ctx.judge('R4', 'driver allocates the determined size') if ok else
     ctx.violation('R4', 'transform_subroutine:driver-size', ts.where, 'create_pool_allocator is not given the result of _determine_stack_size'))
    run_r5(ctx)


HV = 'loki/transformations/temporaries/hoist_variables.py'


def _key_of(t):
    """'to_hoist' for a target/expr `....["to_hoist"]`"""
    return t.slice.value if isinstance(t, ast.Subscript) and isinstance(t.slice, ast.Constant) and isinstance(t.slice.value, str) else None


def run_r5(ctx):
    m = ctx.model
    ctx.rule('R5', 'hoisting: to_hoist (dummies) and hoist_variables (actuals) are initialised from one list without filters, extended together, and '
                   'consumed unfiltered and in order on both sides')
    A = m.get_class(HV, 'HoistVariablesAnalysis')
    T = m.get_class(HV, 'HoistVariablesTransformation')
    at, tt = A.function('transform_subroutine'), T.function('transform_subroutine')
    if at is None or tt is None:
        raise AnalysisError('HoistVariablesAnalysis / HoistVariablesTransformation.transform_subroutine vanished')
    PAIR = ('to_hoist', 'hoist_variables')
    init = {k: [] for k in PAIR}
    ext = {k: [] for k in PAIR}
    for a in ast.walk(at.node):
        if isinstance(a, ast.Assign) and _key_of(a.targets[0]) in PAIR:
            init[_key_of(a.targets[0])].append(a.value)
        if isinstance(a, ast.AugAssign) and _key_of(a.target) in PAIR:
            ext[_key_of(a.target)].append(a.value)
        if isinstance(a, ast.Call) and isinstance(a.func, ast.Attribute) and a.func.attr in ('extend', 'append', 'insert') and _key_of(a.func.value) in PAIR:
            ext[_key_of(a.func.value)].append(a.args[0] if len(a.args) == 1 else a)
    # initialisation: non-empty initialisers come from the same source list
    src = {}
    for k in PAIR:
        vals = [v for v in init[k] if not (isinstance(v, (ast.List, ast.Tuple)) and not v.elts)]
        if len(vals) != 1:
            raise AnalysisError(f'HoistVariablesAnalysis: expected one non-empty initialisation of "{k}", found {len(vals)}')
        v = vals[0]
        if isinstance(v, ast.Name):
            src[k] = (v.id, False)
        elif isinstance(v, (ast.ListComp, ast.GeneratorExp)) and len(v.generators) == 1 and isinstance(v.generators[0].iter, ast.Name):
            src[k] = (v.generators[0].iter.id, bool(v.generators[0].ifs))
        else:
            raise AnalysisError(f'HoistVariablesAnalysis: initialisation of "{k}" (`{ast.unparse(v)[:60]}`) not recognised')
    if src['to_hoist'][0] == src['hoist_variables'][0] and not src['to_hoist'][1] and not src['hoist_variables'][1]:
        ctx.judge('R5', 'analysis: both lists initialised from the same variables', facts={'source': src['to_hoist'][0]})
    else:
        ctx.violation('R5', 'HoistVariablesAnalysis.transform_subroutine:initialisation', at.where,
                      f'"to_hoist" is initialised from `{src["to_hoist"]}` and "hoist_variables" from `{src["hoist_variables"]}` (name, filtered): '
                      f'the dummies added to the routine and the arguments its callers pass no longer correspond one to one')
    e1, e2 = ([ast.unparse(x) for x in ext[k]] for k in PAIR)
    if e1 == e2 and e1:
        ctx.judge('R5', 'analysis: both lists extended together', facts={'with': e1})
    else:
        ctx.violation('R5', 'HoistVariablesAnalysis.transform_subroutine:extension', at.where,
                      f'"to_hoist" is extended with {e1} but "hoist_variables" with {e2}: after the first successor the two lists are no longer parallel')
    # transformation, callee side: routine.arguments += <comprehension over item ... ['to_hoist']> without filter
    par = [a.arg for a in tt.node.args.args][1]
    adds = [a for a in ast.walk(tt.node) if isinstance(a, ast.AugAssign) and ast.unparse(a.target) == f'{par}.arguments']
    if len(adds) != 1:
        raise AnalysisError('HoistVariablesTransformation: `routine.arguments += ...` not found')
    av = adds[0].value
    comp = av if isinstance(av, (ast.ListComp, ast.GeneratorExp)) else None
    if isinstance(av, ast.Name):
        defs = [a.value for a in ast.walk(tt.node) if isinstance(a, ast.Assign) and any(isinstance(t, ast.Name) and t.id == av.id for t in a.targets)]
        comp = next((c for d in defs for c in ast.walk(d) if isinstance(c, (ast.ListComp, ast.GeneratorExp))), None)
    ok = comp is not None and len(comp.generators) == 1 and not comp.generators[0].ifs and _key_of(comp.generators[0].iter) == 'to_hoist' \
        and not any(isinstance(c, ast.Call) and X.call_name_of(c) in ('sorted', 'reversed', 'set') for c in ast.walk(comp))
    (ctx.judge('R5', 'transformation: dummies appended from to_hoist, unfiltered, in order') if ok else
     ctx.violation('R5', 'HoistVariablesTransformation.transform_subroutine:dummies', f'{HV}:{adds[0].lineno}',
                   f'the dummies appended to the routine (`{ast.unparse(av)[:80]}`) are not the unfiltered, ordered "to_hoist" list'))
    # caller side: the variables handed to the remapping callbacks come from the successor's hoist_variables
    hv = [a for a in ast.walk(tt.node) if isinstance(a, ast.Assign) and isinstance(a.value, ast.Subscript) and _key_of(a.value) == 'hoist_variables'
          and 'successor' in ast.unparse(a.value)]
    if not hv:
        raise AnalysisError("HoistVariablesTransformation: look-up of the successor's hoist_variables not found")
    ctx.judge('R5', "transformation: actual arguments come from the successor's hoist_variables", nontrivial=False)
    n = 0
    subs = [c for mod in m.all_repo_modules(packages=('loki',)) for c in mod.classes.values() if T in m.mro(c)]
    todo = []
    for name in ('driver_call_argument_remapping', 'kernel_call_argument_remapping', 'kernel_inline_call_argument_remapping'):
        if T.function(name) is None:
            raise AnalysisError(f'HoistVariablesTransformation.{name} vanished')
        todo += [(c, name, c.function(name)) for c in subs if c.function(name) is not None]
    ctx.floor('R5', 'classes implementing the hoisting callbacks', len(subs), 2)
    for cls_, name, f in todo:
        name = f'{cls_.name}.{name}' if cls_ is not T else name
        vpar = [a.arg for a in f.node.args.args][-1]
        for c in ast.walk(f.node):
            if isinstance(c, (ast.GeneratorExp, ast.ListComp)) and len(c.generators) == 1 and isinstance(c.generators[0].iter, ast.Name) \
                    and c.generators[0].iter.id == vpar:
                n += 1
                inst = f'{name}:{ast.unparse(c)[:40]}'
                if c.generators[0].ifs:
                    ctx.violation('R5', f'HoistVariablesTransformation.{name}:filtered', f'{f.module.relpath}:{c.lineno}',
                                  f'`{ast.unparse(c)}` filters the hoisted variables on the caller side while the callee received a dummy for '
                                  f'every entry of its "to_hoist" list: positional arguments shift')
                else:
                    ctx.judge('R5', inst)
        bad = [c for c in ast.walk(f.node) if isinstance(c, ast.Call) and X.call_name_of(c) in ('sorted', 'reversed', 'set')
               and any(isinstance(x, ast.Name) and x.id == vpar for x in ast.walk(c))]
        if bad:
            ctx.violation('R5', f'HoistVariablesTransformation.{name}:reordered', f'{HV}:{bad[0].lineno}',
                          f'`{ast.unparse(bad[0])}` re-orders the hoisted variables on the caller side')
    ctx.floor('R5', 'caller-side argument constructions', n, 4)
    run_r67(ctx)
    run_r9(ctx)


def run_r67(ctx):
    from sa.miniev import ev_ext, Unknown
    import types
    m = ctx.model
    ctx.rule('R6', 'loki/transformations/temporaries: no truth test of a range bound (.lower/.upper/.start/.stop)')
    ctx.rule('R7', 'DirectIdxStackTransformation._map_temporary_array: the summed stack subscript contains the position variable of the '
                   'temporary for every shape of the offset')
    nfun = 0
    hits = []
    for mod in m.all_repo_modules(packages=('loki/transformations/temporaries',)):
        for fn_ in [n for n in ast.walk(mod.tree) if isinstance(n, (ast.FunctionDef, ast.AsyncFunctionDef))]:
            nfun += 1
            for o_, t_ in X.truthy_bound_uses(fn_):
                if not any(h[2] is o_ for h in hits):
                    hits.append((mod, fn_, o_, t_))
    ctx.floor('R6', 'functions of the temporaries package', nfun, 60)
    if hits:
        for mod, fn_, o_, t_ in hits:
            ctx.violation('R6', f'{fn_.name}:bound-truthiness', f'{mod.relpath}:{o_.lineno}',
                          f'`{ast.unparse(t_)[:90]}` tests `{ast.unparse(o_)}` for truth: IntLiteral(0) is falsy, so an explicit bound 0 is '
                          f'replaced by the declared bound and the section is mapped onto the wrong part of the stack')
    else:
        ctx.judge('R6', 'no truthiness test of section bounds', facts={'functions': nfun})
    from sa.linform import lin_sym, show, NotLinear
    ctx.rule('R8', 'loki/transformations/temporaries: Sum((X.upper, Product((-1, X.lower)), 1)) -- the extent of a dimension -- is upper - lower + 1')
    n8 = 0
    for mod in m.all_repo_modules(packages=('loki/transformations/temporaries',)):
        for c in ast.walk(mod.tree):
            if isinstance(c, ast.Call) and X.call_name_of(c) == 'Sum' and c.args and isinstance(c.args[0], (ast.Tuple, ast.List)):
                try:
                    got = lin_sym(c)
                except NotLinear:
                    continue
                ups = [k for k in got if isinstance(k, str) and k.endswith(('.upper', '_upper'))]
                lows = [k for k in got if isinstance(k, str) and k.endswith(('.lower', '_lower'))]
                others = [k for k in got if k != 1 and k not in ups + lows]
                if len(ups) != 1 or len(lows) != 1 or others or ups[0].rsplit('upper', 1)[0] != lows[0].rsplit('lower', 1)[0]:
                    continue            # not the extent of one dimension
                n8 += 1
                inst = f'{mod.relpath}:{show(got)}'
                if got[ups[0]] == 1 and got[lows[0]] == -1 and got.get(1, 0) == 1:
                    ctx.judge('R8', inst, nontrivial=False)
                else:
                    ctx.violation('R8', f'extent:{show(got)}', f'{mod.relpath}:{c.lineno}',
                                  f'`{ast.unparse(c)[:90]}` is `{show(got)}`: the number of elements of a dimension lower:upper is upper - lower + 1; '
                                  f'anything smaller reserves too little storage for the temporary', instance=inst)
    ctx.floor('R8', 'extent expressions', n8, 4)
    D = m.get_class('loki/transformations/temporaries/stack_allocator.py', 'DirectIdxStackTransformation')
    f = D.function('_map_temporary_array')
    if f is None:
        raise AnalysisError('DirectIdxStackTransformation._map_temporary_array vanished')
    posn = X.names_assigned_from(f.node, 'temp_array_map[', '[2]')
    sums = [a for a in ast.walk(f.node) if isinstance(a, ast.Assign) and isinstance(a.value, ast.Call) and X.call_name_of(a.value) == 'Sum'
            and a.value.args and any(isinstance(n, ast.Name) and n.id in posn for n in ast.walk(a.value.args[0]))]
    if not posn or len(sums) < 2:
        raise AnalysisError('_map_temporary_array: the sums building the stack subscript from the position variable were not found')

    class _Sum:
        def __init__(self, children):
            self.children = tuple(children)
    POS = 'POSITION'
    for a in sums:
        arg = a.value.args[0]
        offs = sorted({n.id for n in ast.walk(arg) if isinstance(n, ast.Name)} - set(posn) - {'Sum', 'isinstance'})
        for shape, val in (('a sum', _Sum(('x', 'y'))), ('a single term', 'x')):
            env = {p_: POS for p_ in posn}
            env.update({o: val for o in offs})
            env['Sum'] = _Sum
            env['isinstance'] = isinstance
            try:
                got = ev_ext(arg, env)
            except Unknown as u:
                raise AnalysisError(f'_map_temporary_array: `{ast.unparse(arg)}` uses `{u}`, outside the evaluated fragment')
            inst = f'_map_temporary_array:{a.targets[0].id if isinstance(a.targets[0], ast.Name) else "?"}:offset is {shape}'
            if isinstance(got, tuple) and POS in got:
                ctx.judge('R7', inst)
            else:
                ctx.violation('R7', f'DirectIdxStackTransformation._map_temporary_array:{ast.unparse(a.targets[0])}:base-offset-dropped',
                              f'{f.module.relpath}:{a.lineno}',
                              f'`{ast.unparse(a)}`: when the simplified offset is {shape} the summed terms are {got!r} -- the position of the '
                              f'temporary (`{posn[0]}`) is missing, the access goes to STACK(<offset>) and all such temporaries share the '
                              f'beginning of the stack (a conditional expression binds weaker than `+`)', instance=inst)



def run_r9(ctx):
    """column-major linearisation: inside a loop over the dimensions, ``offset = Sum((offset, Product((d_offset, S))))`` uses a
    stride S that is the *cumulative* product of the extents of the dimensions already passed"""
    m = ctx.model
    ctx.rule('R9', 'loki/transformations/temporaries: a linearised offset accumulated over dimensions multiplies each index by a stride that is '
                   'initialised before the loop, used before it is updated, and updated as Product((stride, extent)) in every iteration')
    n = 0

    def self_ref_call(a, fname):
        """`V = fname((... V ...))` -> (V, other elements) else None"""
        if isinstance(a, ast.Assign) and len(a.targets) == 1 and isinstance(a.targets[0], ast.Name) and isinstance(a.value, ast.Call) \
                and X.call_name_of(a.value) == fname and a.value.args and isinstance(a.value.args[0], (ast.Tuple, ast.List)):
            v = a.targets[0].id
            elts = a.value.args[0].elts
            if any(isinstance(e, ast.Name) and e.id == v for e in elts):
                return v, [e for e in elts if not (isinstance(e, ast.Name) and e.id == v)]
        return None
    for mod in m.all_repo_modules(packages=('loki/transformations/temporaries',)):
        for fn_ in [x for x in ast.walk(mod.tree) if isinstance(x, (ast.FunctionDef, ast.AsyncFunctionDef))]:
            for loop in [l for l in ast.walk(fn_) if isinstance(l, ast.For)]:
                for st in loop.body:
                    r = self_ref_call(st, 'Sum')
                    if not r:
                        continue
                    off, rest = r
                    prods = [e for e in rest if isinstance(e, ast.Call) and X.call_name_of(e) == 'Product' and e.args
                             and isinstance(e.args[0], (ast.Tuple, ast.List)) and len(e.args[0].elts) == 2
                             and all(isinstance(z, ast.Name) for z in e.args[0].elts)]
                    if len(rest) != 1 or len(prods) != 1:
                        continue
                    factors = [z.id for z in prods[0].args[0].elts]
                    # the stride is the factor that is (re)assigned in the loop body at top level and defined before the loop
                    top_assigned = {t.id: a for a in loop.body if isinstance(a, ast.Assign) for t in a.targets if isinstance(t, ast.Name)}
                    pre = {t.id for a in ast.walk(fn_) if isinstance(a, ast.Assign) and a.lineno < loop.lineno for t in a.targets if isinstance(t, ast.Name)}
                    cands = [f_ for f_ in factors if f_ in pre and f_ != off]
                    if len(cands) != 1:
                        continue
                    S = cands[0]
                    n += 1
                    where = f'{mod.relpath}:{st.lineno}'
                    inst = f'{fn_.name}:{off}+={factors[0]}*{factors[1]}'
                    upd = [a for a in ast.walk(loop) if isinstance(a, (ast.Assign, ast.AugAssign)) and any(
                        isinstance(t, ast.Name) and t.id == S for t in (a.targets if isinstance(a, ast.Assign) else [a.target]))]
                    if not upd:
                        ctx.violation('R9', f'{fn_.name}:stride-never-updated', where,
                                      f'`{ast.unparse(st)}`: the stride `{S}` is not updated in the loop over the dimensions: every index is scaled '
                                      f'alike, distinct elements of the temporary share one slot', instance=inst)
                        continue
                    bad = None
                    for a in upd:
                        r2 = self_ref_call(a, 'Product')
                        if a not in loop.body:
                            bad = (a, 'is updated only conditionally')
                        elif r2 is None or r2[0] != S or len(r2[1]) != 1:
                            bad = (a, 'is not the running product of the extents (it must be Product((stride, extent)))')
                        elif a.lineno < st.lineno:
                            bad = (a, 'is updated before the offset of the current dimension has been added')
                    if bad:
                        ctx.violation('R9', f'{fn_.name}:stride-not-cumulative', f'{mod.relpath}:{bad[0].lineno}',
                                      f'`{ast.unparse(bad[0])}`: the stride `{S}` that scales the index of each dimension in `{ast.unparse(st)[:70]}` '
                                      f'{bad[1]}: for a temporary with three or more non-horizontal dimensions distinct elements are mapped to '
                                      f'the same slot of the stack', instance=inst)
                    else:
                        ctx.judge('R9', inst, facts={'offset': off, 'stride': S, 'update': ast.unparse(upd[0])})
    ctx.floor('R9', 'linearised offsets accumulated over dimensions', n, 1)


MUTANTS = [
    Mutant('stride-is-last-extent', 'loki/transformations/temporaries/raw_stack_allocator.py', "                    s_offset = Product((s_offset, s_extent))",
           "                    s_offset = s_extent", expect=('R9', 'stride-not-cumulative')),
    Mutant('stride-updated-before-use', 'loki/transformations/temporaries/raw_stack_allocator.py',
           "                    offset = Sum((offset, Product((d_offset, s_offset))))\n\n                    s_offset = Product((s_offset, s_extent))",
           "                    s_offset = Product((s_offset, s_extent))\n\n                    offset = Sum((offset, Product((d_offset, s_offset))))",
           expect=('R9', 'stride-not-cumulative')),
    Mutant('extent-without-plus-one', FILE, "                dims += (Sum((d.upper, Product((-1, d.lower)), 1)),)", "                dims += (Sum((d.upper, Product((-1, d.lower)))),)",
           expect=('R8', 'extent')),
    Mutant('section-bound-by-truthiness', 'loki/transformations/temporaries/stack_allocator.py',
           "                        d_lower = d.lower if d.lower is not None else s_lower\n", "                        d_lower = d.lower or s_lower\n",
           expect=('R6', 'bound-truthiness')),
    Mutant('raw-stack-bound-by-truthiness', 'loki/transformations/temporaries/raw_stack_allocator.py',
           "                        if d.lower is None:\n                            d_lower = s_lower\n                        else:\n                            d_lower = d.lower\n",
           "                        d_lower = d.lower or s_lower\n", expect=('R6', 'bound-truthiness')),
    Mutant('base-offset-dropped', 'loki/transformations/temporaries/stack_allocator.py',
           "            lower = Sum((int_var,) + (offset.children if isinstance(offset, Sum) else (offset,)))",
           "            lower = Sum((int_var,) + offset.children if isinstance(offset, Sum) else (offset,))", expect=('R7', 'base-offset-dropped')),
    Mutant('hoist-names-filtered', HV,
           "            item.trafo_data[self._key][\"hoist_variables\"] = [var.clone(name=f'{routine.name}_{var.name}')\n                                                             for var in variables]",
           "            item.trafo_data[self._key][\"hoist_variables\"] = [var.clone(name=f'{routine.name}_{var.name}')\n                                                             for var in variables if var.shape]",
           expect=('R5', 'initialisation')),
    Mutant('hoist-extend-one-list', HV, "            item.trafo_data[self._key][\"to_hoist\"].extend(hoist_variables)\n", "", expect=('R5', 'extension')),
    Mutant('hoist-caller-skips-scalars', HV,
           "        new_args = tuple(v.clone(dimensions=None) for v in variables)\n        return call.clone(arguments=call.arguments + new_args)\n\n    def kernel_call_argument_remapping",
           "        new_args = tuple(v.clone(dimensions=None) for v in variables if isinstance(v, sym.Array))\n        return call.clone(arguments=call.arguments + new_args)\n\n    def kernel_call_argument_remapping",
           expect=('R5', 'filtered')),
    Mutant('pointer-advances-unrounded', FILE,
           "        arr_size = ishift_func.clone(parameters=(Sum((arr_size, 7)), -3))\n\n        # Increment stack size\n        stack_size = simplify(Sum((stack_size, arr_size)))",
           "        arr_words = ishift_func.clone(parameters=(Sum((arr_size, 7)), -3))\n\n        # Increment stack size\n        stack_size = simplify(Sum((stack_size, arr_words)))",
           expect=('R1', 'counted-vs-consumed'), quick=True),
    Mutant('round-down', FILE, "parameters=(Sum((arr_size, 7)), -3))", "parameters=(Sum((arr_size, 3)), -3))", expect=('R1', 'rounding')),
    Mutant('skip-small-arrays', FILE,
           "            allocation, stack_size = self._create_stack_allocation(stack_ptr, stack_end, ptr_var, arr,\n                    stack_size, stack_storage)\n",
           "            allocation, new_size = self._create_stack_allocation(stack_ptr, stack_end, ptr_var, arr,\n                    stack_size, stack_storage)\n            if len(arr.shape) > 1:\n                stack_size = new_size\n",
           expect=('R2', 'accumulation')),
    Mutant('one-size-per-callee', FILE, "        stack_sizes = []\n        for call in FindNodes(CallStatement).visit(routine.body):",
           "        stack_sizes = {}\n        for call in FindNodes(CallStatement).visit(routine.body):",
           also=[(FILE, "                stack_sizes += [successor_stack_size]\n", "                stack_sizes[str(call.name).lower()] = successor_stack_size\n"),
                 (FILE, "            d for s in stack_sizes\n", "            d for s in stack_sizes.values()\n")],
           expect=('R3', 'one-entry-per-callee')),
    Mutant('local-size-not-added', FILE, "            stack_sizes = [simplify(Sum((local_stack_size, s))) for s in stack_sizes]\n",
           "            stack_sizes = [local_stack_size] + stack_sizes\n", expect=('R3', 'local-plus-callee')),
    Mutant('min-over-call-sites', FILE, "stack_size = InlineCall(function=Variable(name='MAX'), parameters=as_tuple(stack_sizes), kw_parameters=())",
           "stack_size = InlineCall(function=Variable(name='MIN'), parameters=as_tuple(stack_sizes), kw_parameters=())", expect=('R3', 'combination')),
    Mutant('first-two-call-sites', FILE, "stack_size = InlineCall(function=Variable(name='MAX'), parameters=as_tuple(stack_sizes), kw_parameters=())",
           "stack_size = InlineCall(function=Variable(name='MAX'), parameters=as_tuple(stack_sizes[:2]), kw_parameters=())", expect=('R3', 'combination')),
    Mutant('single-when-any', FILE, "        if len(stack_sizes) == 1:\n", "        if len(stack_sizes) >= 1:\n", expect=('R3', 'single')),
]
