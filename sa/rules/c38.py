"""
C38  Temporary hoisting and stack/pool allocation (storage-sufficiency clause only).

"... with enough storage for every temporary on every path" has necessary
conditions that are visible in the shape of the pool allocator:
 R1  what is counted is what is consumed: in ``_create_stack_allocation`` the
     amount added to the running ``stack_size`` and the amount by which the stack
     pointer advances are the *same* local expression (the rounded-up size of the
     array), possibly through the inverse unit conversion (``ISHFT(x, 3)`` for a
     pointer in bytes against ``ISHFT(.., -3)`` words), and the rounding constant
     matches the shift (``2**3 - 1``).
 R2  every temporary is counted: in ``apply_pool_allocator_to_temporaries`` the
     loop that associates a pointer with a temporary is the loop that accumulates
     the size, unconditionally, threading the accumulator through every
     iteration; the accumulated value is what the function returns and what the
     item publishes as its ``stack_size``.
 R3  callees are included on every path: ``_determine_stack_size`` visits every
     call to a successor (no early exit), adds the local size to *each* callee
     size, and combines several call sites by ``MAX`` over all of them.
 R4  the driver allocates what was computed: the size handed to
     ``create_pool_allocator`` is the value returned by ``_determine_stack_size``.
Not decided: behavioural equivalence of hoisted / pool-allocated code, the size
arithmetic of each array (dimension products, ``C_SIZEOF``), hoisting, and the other
stack transformations (raw stack, Fortran-pointer and direct-index variants).
"""
import ast

from sa import exprs as X
from sa.model import AnalysisError
from sa.mutate import Mutant

PROP = 'C38'

META = dict(
    technique='def-use agreement inside the pool allocator: the expression accumulated into the stack size vs the expression the '
              'stack pointer is advanced by; loop / accumulator threading; shape of the callee-size combination (sum with the local '
              'size, MAX over call sites); constant agreement of rounding and shifts',
    level='Decides structural necessary conditions of the storage-sufficiency clause only: counted == consumed per temporary, every '
          'temporary and every successor call site contributes, combination by local + MAX(callees), the driver allocates the computed '
          'size. Does NOT decide behavioural equivalence, hoisting, or the per-array size arithmetic.',
    note='Claimed for the storage clause of the pool allocator (TemporariesPoolAllocatorTransformation).',
    ref='DESIGN.md section 3, C38',
)

FILE = 'loki/transformations/temporaries/pool_allocator.py'
CLS = 'TemporariesPoolAllocatorTransformation'


def _names(e):
    return {n.id for n in ast.walk(e) if isinstance(n, ast.Name)}


def run(ctx):
    m = ctx.model
    ctx.rule('R1', '_create_stack_allocation: stack_size += S and stack pointer += S (or the inverse unit conversion of S) for the same local S; '
                   'rounding constant == 2**shift - 1')
    ctx.rule('R2', 'apply_pool_allocator_to_temporaries: one unconditional loop associates the pointer and threads the size accumulator; '
                   'the accumulator is returned and published as stack_size')
    ctx.rule('R3', '_determine_stack_size: every successor call contributes; local size added to each; several call sites combined by MAX over all')
    ctx.rule('R4', 'driver: create_pool_allocator receives the value of _determine_stack_size')
    T = m.get_class(FILE, CLS)
    ca = T.function('_create_stack_allocation')
    ap = T.function('apply_pool_allocator_to_temporaries')
    ds = T.function('_determine_stack_size')
    ts = T.function('transform_subroutine')
    for nm, f in (('_create_stack_allocation', ca), ('apply_pool_allocator_to_temporaries', ap), ('_determine_stack_size', ds), ('transform_subroutine', ts)):
        if f is None:
            raise AnalysisError(f'{CLS}.{nm} vanished')
    # ---- R1
    params = [a.arg for a in ca.node.args.args]
    # the accumulator parameter: re-assigned from Sum((<itself>, S)) and returned
    acc = [a for a in ast.walk(ca.node) if isinstance(a, ast.Assign) and isinstance(a.targets[0], ast.Name) and a.targets[0].id in params
           and 'Sum(' in ast.unparse(a.value) and a.targets[0].id in _names(a.value)]
    if len(acc) != 1:
        raise AnalysisError('_create_stack_allocation: the statement accumulating the stack size was not found')
    accn = acc[0].targets[0].id
    counted = _names(acc[0].value) - {accn, 'simplify', 'Sum'}
    if len(counted) != 1:
        raise AnalysisError(f'_create_stack_allocation: accumulated quantity not a single local ({sorted(counted)})')
    S = counted.pop()
    # pointer increments: Assignment(lhs=<ptr param>, rhs=Sum((<ptr param>, X)))
    incs = []
    for c in ast.walk(ca.node):
        if isinstance(c, ast.Call) and (X.dotted_attr(c.func) or '').endswith('Assignment'):
            kw = {k.arg: k.value for k in c.keywords}
            if 'lhs' in kw and 'rhs' in kw and isinstance(kw['lhs'], ast.Name) and kw['lhs'].id in params and 'Sum(' in ast.unparse(kw['rhs']) \
                    and kw['lhs'].id in _names(kw['rhs']):
                incs.append((c, kw['lhs'].id, kw['rhs']))
    ctx.floor('R1', 'stack pointer increments', len(incs), 1)
    # the last definition of S before the accumulation
    sdefs = [a for a in ast.walk(ca.node) if isinstance(a, ast.Assign) and any(isinstance(t, ast.Name) and t.id == S for t in a.targets)]
    late = [a.lineno for a in sdefs if a.lineno > acc[0].lineno]
    for c, ptr, rhs in incs:
        used = _names(rhs) - {ptr, 'Sum'}
        inst = f'_create_stack_allocation:pointer-increment@{ptr}'
        where = f'{ca.module.relpath}:{c.lineno}'
        if S not in used:
            ctx.violation('R1', '_create_stack_allocation:counted-vs-consumed', where,
                          f'the stack pointer advances by `{ast.unparse(rhs)}` while the stack size grows by `{S}`: the storage reserved for a '
                          f'temporary differs from the storage it consumes')
            continue
        # anything between S and the pointer other than the inverse unit conversion?
        conv = [x for x in ast.walk(rhs) if isinstance(x, ast.Call) and x is not rhs and S in _names(x) and 'Sum' not in ast.unparse(x.func)]
        ok = True
        for x in conv:
            shift = [a for a in ast.walk(x) if isinstance(a, ast.Constant) and isinstance(a.value, int)]
            back = [int(v.operand.value) for a in sdefs for v in ast.walk(a.value)
                    if isinstance(v, ast.UnaryOp) and isinstance(v.op, ast.USub) and isinstance(v.operand, ast.Constant)]
            if not ('clone' in ast.unparse(x.func) and shift and back and shift[-1].value == back[-1]):
                ok = False
        if late:
            ok = False
        (ctx.judge('R1', inst, facts={'counted': S, 'advanced_by': ast.unparse(rhs)}) if ok else
         ctx.violation('R1', '_create_stack_allocation:counted-vs-consumed', where,
                       f'the stack pointer advances by `{ast.unparse(rhs)}`, which is not `{S}` (nor its inverse unit conversion) as counted '
                       f'into the stack size'))
    # rounding constant vs shift
    consts = []
    for a in sdefs:
        for v in ast.walk(a.value):
            if isinstance(v, ast.Call) and 'Sum' in ast.unparse(v.func):
                consts += [c.value for c in ast.walk(v) if isinstance(c, ast.Constant) and isinstance(c.value, int)]
    shifts = [int(v.operand.value) for a in sdefs for v in ast.walk(a.value)
              if isinstance(v, ast.UnaryOp) and isinstance(v.op, ast.USub) and isinstance(v.operand, ast.Constant)]
    if consts and shifts:
        ok = consts[-1] == 2 ** shifts[-1] - 1
        (ctx.judge('R1', 'rounding constant matches the shift', facts={'add': consts[-1], 'shift': shifts[-1]}) if ok else
         ctx.violation('R1', '_create_stack_allocation:rounding', ca.where,
                       f'the size is rounded as (bytes + {consts[-1]}) >> {shifts[-1]}: not a round-up to the allocation unit, arrays whose '
                       f'byte size is not a multiple of {2 ** shifts[-1]} get too little storage'))
    else:
        raise AnalysisError('_create_stack_allocation: rounding (Sum((size, k)) shifted by -n) not found')
    # ---- R2
    loops = [l for l in ast.walk(ap.node) if isinstance(l, ast.For) and any(
        isinstance(c, ast.Call) and (X.dotted_attr(c.func) or '').endswith('_create_stack_allocation') for c in ast.walk(l))]
    if len(loops) != 1:
        raise AnalysisError('apply_pool_allocator_to_temporaries: the allocation loop was not found')
    lp = loops[0]
    call_st = [(st, g) for st, g in X.nodes_with_guards(lp, lambda x: isinstance(x, ast.Assign) and any(
        isinstance(c, ast.Call) and (X.dotted_attr(c.func) or '').endswith('_create_stack_allocation') for c in ast.walk(x.value)))]
    st, guards = call_st[0]
    tgt = st.targets[0]
    accv = tgt.elts[1].id if isinstance(tgt, ast.Tuple) and len(tgt.elts) == 2 and isinstance(tgt.elts[1], ast.Name) else None
    callx = next(c for c in ast.walk(st.value) if isinstance(c, ast.Call) and (X.dotted_attr(c.func) or '').endswith('_create_stack_allocation'))
    threaded = accv is not None and any(isinstance(a, ast.Name) and a.id == accv for a in callx.args)
    exits = [n for n in ast.walk(lp) if isinstance(n, (ast.Break, ast.Continue)) and n.lineno < st.lineno]
    rets = [r for r in ast.walk(ap.node) if isinstance(r, ast.Return) and r.value is not None]
    ok = threaded and not guards and not exits and all(isinstance(r.value, ast.Name) and r.value.id == accv for r in rets) and rets
    ptr_in_loop = any('POINTER(' in ast.unparse(n) for n in ast.walk(lp))
    if ok and ptr_in_loop:
        ctx.judge('R2', 'every pointer-associated temporary is accumulated', facts={'accumulator': accv})
    else:
        ctx.violation('R2', 'apply_pool_allocator_to_temporaries:accumulation', f'{ap.module.relpath}:{st.lineno}',
                      f'the size accumulator `{accv}` is not threaded unconditionally through every iteration of the allocation loop and '
                      f'returned (guards {guards}, early exits {len(exits)}, returns {[ast.unparse(r.value) for r in rets]}): some temporary '
                      f'is placed on the stack without being counted')
    pub = [a for a in ast.walk(ts.node) if isinstance(a, ast.Assign) and isinstance(a.targets[0], ast.Subscript)
           and isinstance(a.targets[0].slice, ast.Constant) and a.targets[0].slice.value == 'stack_size']
    kdefs = X.names_assigned_from(ts.node, 'self._determine_stack_size(')
    ok = pub and all(isinstance(a.value, ast.Name) and a.value.id in kdefs for a in pub)
    kernel_call = [c for c in ast.walk(ts.node) if isinstance(c, ast.Call) and (X.dotted_attr(c.func) or '') == 'self._determine_stack_size'
                   and len(c.args) >= 3]
    local_names = X.names_assigned_from(ts.node, 'self.apply_pool_allocator_to_temporaries(')
    ok = ok and any(isinstance(c.args[2], ast.Name) and c.args[2].id in local_names for c in kernel_call)
    (ctx.judge('R2', 'kernel publishes local + callees as stack_size') if ok else
     ctx.violation('R2', 'transform_subroutine:published-size', ts.where,
                   "the kernel's published trafo_data['stack_size'] is not _determine_stack_size(routine, successors, <local size>)"))
    # ---- R3
    sizes = None
    for l in ast.walk(ds.node):
        if isinstance(l, ast.For) and 'CallStatement' in ast.unparse(l.iter):
            aug = [a for a in ast.walk(l) if isinstance(a, ast.AugAssign) and isinstance(a.target, ast.Name)]
            if aug:
                sizes = aug[0].target.id
                early = [n for n in ast.walk(l) if isinstance(n, (ast.Break, ast.Return))]
                (ctx.judge('R3', 'every successor call contributes') if not early else
                 ctx.violation('R3', '_determine_stack_size:early-exit', f'{ds.module.relpath}:{early[0].lineno}',
                               'the scan of successor calls stops early: later call sites with a larger stack requirement are ignored'))
    if sizes is None:
        raise AnalysisError('_determine_stack_size: collection of successor stack sizes not found')
    lpar = [a.arg for a in ds.node.args.args][3]
    addl = [a for a in ast.walk(ds.node) if isinstance(a, ast.Assign) and any(isinstance(t, ast.Name) and t.id == sizes for t in a.targets)
            and isinstance(a.value, ast.ListComp) and 'Sum(' in ast.unparse(a.value.elt) and lpar in _names(a.value.elt)]
    ok = bool(addl) and all(isinstance(a.value.generators[0].iter, ast.Name) and a.value.generators[0].iter.id == sizes
                            and not a.value.generators[0].ifs for a in addl)
    (ctx.judge('R3', 'local size added to each callee size') if ok else
     ctx.violation('R3', '_determine_stack_size:local-plus-callee', ds.where,
                   f'the local stack size `{lpar}` is not added to every successor size: the callee stack starts after the local temporaries, so '
                   f'the total must be local + callee for each call site'))
    comb = [c for c in ast.walk(ds.node) if isinstance(c, ast.Call) and (X.dotted_attr(c.func) or '').endswith('InlineCall')
            and any(k.arg == 'function' for k in c.keywords)]
    if not comb:
        raise AnalysisError('_determine_stack_size: combination of several call sites not found')
    for c in comb:
        kw = {k.arg: k.value for k in c.keywords}
        fname = next((x.value for x in ast.walk(kw['function']) if isinstance(x, ast.Constant) and isinstance(x.value, str)), None)
        allp = 'parameters' in kw and any(isinstance(n, ast.Name) and n.id == sizes for n in ast.walk(kw['parameters'])) and not any(
            isinstance(n, (ast.Subscript, ast.Slice)) for n in ast.walk(kw['parameters']))
        if str(fname).upper() == 'MAX' and allp:
            ctx.judge('R3', 'several call sites combined by MAX over all', facts={'function': fname})
        else:
            ctx.violation('R3', '_determine_stack_size:combination', f'{ds.module.relpath}:{c.lineno}',
                          f'call sites are combined by `{fname}` over `{ast.unparse(kw.get("parameters"))}`: the stack must be large enough for the '
                          f'most demanding call site (MAX over all of them)')
    single = [r for r in ast.walk(ds.node) if isinstance(r, ast.Return) and isinstance(r.value, ast.Subscript)
              and isinstance(r.value.value, ast.Name) and r.value.value.id == sizes]
    for r, guards in X.nodes_with_guards(ds.node, lambda x: isinstance(x, ast.Return) and x in single):
        ok = any(g.replace(' ', '') == f'len({sizes})==1' for g in guards)
        (ctx.judge('R3', 'single element returned only when there is exactly one') if ok else
         ctx.violation('R3', '_determine_stack_size:single', f'{ds.module.relpath}:{r.lineno}',
                       f'`{ast.unparse(r)}` under {guards}: one call site is taken although there may be several'))
    # ---- R4
    dn = X.names_assigned_from(ts.node, 'self._determine_stack_size(')
    cp = [c for c in ast.walk(ts.node) if isinstance(c, ast.Call) and (X.dotted_attr(c.func) or '') == 'self.create_pool_allocator']
    ok = bool(cp) and all(len(c.args) >= 2 and isinstance(c.args[1], ast.Name) and c.args[1].id in dn for c in cp)
    (ctx.judge('R4', 'driver allocates the determined size') if ok else
     ctx.violation('R4', 'transform_subroutine:driver-size', ts.where, 'create_pool_allocator is not given the result of _determine_stack_size'))


MUTANTS = [
    Mutant('pointer-advances-unrounded', FILE,
           "        arr_size = ishift_func.clone(parameters=(Sum((arr_size, 7)), -3))\n\n        # Increment stack size\n        stack_size = simplify(Sum((stack_size, arr_size)))",
           "        arr_words = ishift_func.clone(parameters=(Sum((arr_size, 7)), -3))\n\n        # Increment stack size\n        stack_size = simplify(Sum((stack_size, arr_words)))",
           expect=('R1', 'counted-vs-consumed'), quick=True),
    Mutant('round-down', FILE, "parameters=(Sum((arr_size, 7)), -3))", "parameters=(Sum((arr_size, 3)), -3))", expect=('R1', 'rounding')),
    Mutant('skip-small-arrays', FILE,
           "            allocation, stack_size = self._create_stack_allocation(stack_ptr, stack_end, ptr_var, arr,\n                    stack_size, stack_storage)\n",
           "            allocation, new_size = self._create_stack_allocation(stack_ptr, stack_end, ptr_var, arr,\n                    stack_size, stack_storage)\n            if len(arr.shape) > 1:\n                stack_size = new_size\n",
           expect=('R2', 'accumulation')),
    Mutant('local-size-not-added', FILE, "            stack_sizes = [simplify(Sum((local_stack_size, s))) for s in stack_sizes]\n",
           "            stack_sizes = [local_stack_size] + stack_sizes\n", expect=('R3', 'local-plus-callee')),
    Mutant('min-over-call-sites', FILE, "stack_size = InlineCall(function=Variable(name='MAX'), parameters=as_tuple(stack_sizes), kw_parameters=())",
           "stack_size = InlineCall(function=Variable(name='MIN'), parameters=as_tuple(stack_sizes), kw_parameters=())", expect=('R3', 'combination')),
    Mutant('first-two-call-sites', FILE, "stack_size = InlineCall(function=Variable(name='MAX'), parameters=as_tuple(stack_sizes), kw_parameters=())",
           "stack_size = InlineCall(function=Variable(name='MAX'), parameters=as_tuple(stack_sizes[:2]), kw_parameters=())", expect=('R3', 'combination')),
    Mutant('single-when-any', FILE, "        if len(stack_sizes) == 1:\n", "        if len(stack_sizes) >= 1:\n", expect=('R3', 'single')),
]
