"""
C18  Pickling round-trip preserves program units.

 R1  dropped state is re-established: every attribute a ``__getstate__`` removes
     from the pickled state (``_ast``, ``_parent`` ...) is assigned again by the
     matching ``__setstate__`` (or restored by the owner's ``__setstate__`` /
     a class-level default) -- otherwise the unpickled object lacks the
     attribute altogether (AttributeError on first use) or stays detached.
 R2  sibling agreement: every ``__setstate__`` of a unit that can contain other
     program units (Module: module procedures; Subroutine: internal procedures)
     re-parents them (``_reset_parent(self)``), re-registers them and rescopes.
 R3  symbol tables drop only the weak parent link and ``Scope`` owners restore it.
 R4  state filters are key-based: a ``__getstate__`` anywhere in loki may leave
     out entries by *name* (constant key set); a filter on the *value* (e.g.
     truthiness) drops state depending on run-time values -- ``IntLiteral(0)``
     and ``.false.`` are falsy, so ``initial=0`` would vanish.  Only ``v is not
     None`` is accepted, and only where missing attributes read as ``None``.
 R5  re-attachment is detected by identity: after unpickling, symbols are put
     back into their scopes by ``rescope_symbols`` (AttachScopesMapper, a
     ``LokiIdentityMapper``); expression equality is string based and cannot see
     a changed scope, so every comparison of a ``self.rec(...)`` result with the
     value it was computed from must be ``is`` / ``is not`` -- with ``==`` the
     re-attached kind / initial-value expressions are never written back.
 R6  unpickling re-attaches the symbols last and unconditionally: in ``__setstate__``
     of the program units ``self.rescope_symbols()`` is not guarded and follows
     every ``_reset_parent`` of the contained scopes.
Not decided: equality of everything else.
"""
import ast

from sa import exprs as X
from sa.model import AnalysisError, ClassInfo
from sa.mutate import Mutant

PROP = 'C18'

META = dict(
    technique='getstate/setstate pairing over the class table (dropped attribute set vs re-established attribute set, incl. '
              'class-level defaults along the MRO) and sibling comparison of the container units\' __setstate__ call sets',
    level='Decides structural necessary conditions of a faithful round trip: nothing dropped on pickling stays missing, and '
          'both kinds of container unit restore the parent links of the units they contain and rescope. Does NOT decide deep '
          'equality of the restored object.',
    note='Dropped attributes are read from the `_ignore`/`del s[...]` idioms used in the repository.',
    ref='DESIGN.md section 3, C18',
)

CLASSES = [('loki/subroutine.py', 'Subroutine'), ('loki/module.py', 'Module'), ('loki/sourcefile.py', 'Sourcefile'),
           ('loki/types/symbol_table.py', 'SymbolTable')]


def _dropped(f):
    out = set()
    for n in ast.walk(f.node):
        if isinstance(n, ast.Assign) and isinstance(n.targets[0], ast.Name) and isinstance(n.value, (ast.Tuple, ast.List)) \
                and n.value.elts and all(isinstance(e, ast.Constant) and isinstance(e.value, str) for e in n.value.elts) \
                and any(isinstance(c, ast.Compare) and isinstance(c.ops[0], ast.NotIn) and isinstance(c.comparators[0], ast.Name)
                        and c.comparators[0].id == n.targets[0].id for c in ast.walk(f.node)):
            out |= {e.value for e in n.value.elts if isinstance(e, ast.Constant)}
        if isinstance(n, ast.Delete):
            for t in n.targets:
                if isinstance(t, ast.Subscript) and isinstance(t.slice, ast.Constant):
                    out.add(t.slice.value)
    return out


def _restored(f):
    out = set()
    if f is None:
        return out
    for n in ast.walk(f.node):
        if isinstance(n, ast.Assign):
            for t in n.targets:
                d = X.dotted_attr(t) or ''
                if d.startswith('self.') and d.count('.') == 1:
                    out.add(d.split('.')[1])
    return out


def _r4_r5(ctx):
    m = ctx.model
    ctx.rule('R4', 'every __getstate__ in loki filters its state by key name only (value-based filters: only `is not None` with a '
                   'None-returning __getattr__)')
    ctx.rule('R5', 'LokiIdentityMapper: results of self.rec(...) are compared with their origin by identity (is / is not), never ==/!=')
    n4 = 0
    for mod in m.all_repo_modules():
        if '/tests/' in mod.relpath:
            continue
        for cls in mod.classes.values():
            mem = cls.members.get('__getstate__')
            if mem is None or mem.kind != 'func':
                continue
            n4 += 1
            inst = f'{cls.name}.__getstate__'
            bad = None
            for c in ast.walk(mem.node):
                if isinstance(c, (ast.DictComp, ast.GeneratorExp, ast.ListComp)):
                    for g in c.generators:
                        tnames = [t.id for t in ast.walk(g.target) if isinstance(t, ast.Name)]
                        if len(tnames) < 2 or 'items' not in ast.unparse(g.iter):
                            continue
                        vname = tnames[1]
                        for cond in g.ifs:
                            for sub in ast.walk(cond):
                                if isinstance(sub, ast.Name) and sub.id == vname:
                                    ok = False
                                    for cmp_ in ast.walk(cond):
                                        if isinstance(cmp_, ast.Compare) and isinstance(cmp_.left, ast.Name) and cmp_.left.id == vname \
                                                and len(cmp_.ops) == 1 and isinstance(cmp_.ops[0], ast.IsNot) \
                                                and isinstance(cmp_.comparators[0], ast.Constant) and cmp_.comparators[0].value is None:
                                            ga = m.member_function(cls, '__getattr__')
                                            ok = ga is not None and 'return None' in ast.unparse(ga.node)
                                    if not ok:
                                        bad = ast.unparse(cond)
            if bad:
                ctx.violation('R4', inst, f'{mod.relpath}:{mem.node.lineno}',
                              f'{cls.name}.__getstate__ filters the pickled state by value (`if {bad}`): entries whose value is falsy but '
                              f'meaningful (IntLiteral(0), LogicLiteral(False), empty tuples) are silently dropped, e.g. `initial=0` of a '
                              f'PARAMETER is lost after a round trip', facts={'filter': bad})
            else:
                ctx.judge('R4', inst)
    ctx.floor('R4', '__getstate__ methods in loki', n4, 8)
    # ---- R5
    IM = m.get_class('loki/expression/mappers.py', 'LokiIdentityMapper')
    n5 = 0
    for mem in IM.members.values():
        if mem.kind != 'func' or not mem.name.startswith('map_'):
            continue
        recd = set()
        for n in ast.walk(mem.node):
            tg = None
            if isinstance(n, ast.Assign) and len(n.targets) == 1 and isinstance(n.targets[0], ast.Name):
                tg, v = n.targets[0].id, n.value
            elif isinstance(n, ast.AugAssign) and isinstance(n.target, ast.Name):
                tg, v = n.target.id, n.value
            if tg and any(isinstance(c, ast.Call) and (X.dotted_attr(c.func) or '') == 'self.rec' for c in ast.walk(v)):
                recd.add(tg)
        if not recd:
            continue
        for n in ast.walk(mem.node):
            if isinstance(n, ast.Compare) and len(n.ops) == 1:
                sides = [n.left, n.comparators[0]]
                names = [s_.id for s_ in sides if isinstance(s_, ast.Name)]
                if not set(names) & recd:
                    continue
                other = [s_ for s_ in sides if not (isinstance(s_, ast.Name) and s_.id in recd)]
                # only comparisons against the value the result was computed from (an attribute chain / name), not constants
                if not other or isinstance(other[0], ast.Constant):
                    continue
                n5 += 1
                inst = f'LokiIdentityMapper.{mem.name}:{ast.unparse(n)}'
                if isinstance(n.ops[0], (ast.Is, ast.IsNot)):
                    ctx.judge('R5', inst)
                elif isinstance(n.ops[0], (ast.Eq, ast.NotEq)):
                    ctx.violation('R5', f'LokiIdentityMapper.{mem.name}:equality-change-test', f'{IM.module.relpath}:{n.lineno}',
                                  f'`{ast.unparse(n)}` decides by (string based) expression equality whether the recursed value changed: a '
                                  f'symbol that was only re-attached to another scope compares equal, so the rebuilt declaration attributes '
                                  f'are not written back (symbols in kind / initial stay detached after unpickling)',
                                  instance=inst)
    ctx.floor('R5', 'change tests on recursed values in LokiIdentityMapper', n5, 6)


def run(ctx):
    m = ctx.model
    ctx.rule('R1', 'attributes removed by __getstate__ are assigned in __setstate__, have a class-level default on the MRO, or are '
                   'restored by the containing object\'s __setstate__')
    ctx.rule('R2', 'Module.__setstate__ and Subroutine.__setstate__ both re-parent contained program units, re-register them '
                   'and call rescope_symbols')
    ctx.rule('R3', 'SymbolTable drops only _parent and resets it; Scope owners re-link symbol_attrs.parent in _reset_parent')
    n = 0
    for rel, cn in CLASSES:
        cls = m.get_class(rel, cn)
        gs = m.member_function(cls, '__getstate__')
        ss = m.member_function(cls, '__setstate__')
        if gs is None:
            continue
        dropped = _dropped(gs)
        restored = _restored(ss)
        for attr in sorted(dropped):
            n += 1
            inst = f'{cn}.{attr}'
            has_default = any(isinstance(c, ClassInfo) and attr in c.members for c in m.mro(cls))
            owner_restores = attr == '_parent' and cn in ('Subroutine', 'Module')      # judged under R2 for the containers
            facts = {'getstate': gs.qualname, 'setstate': ss.qualname if ss else None, 'restored_in_setstate': sorted(restored)}
            if attr in restored or has_default:
                ctx.judge('R1', inst, facts=facts)
            elif owner_restores:
                ctx.judge('R1', inst, nontrivial=False, facts={**facts, 'note': 'restored by the container (R2) / stays None for top-level units'})
            else:
                ctx.violation('R1', inst, (ss or gs).where,
                              f'{cn}.__getstate__ removes {attr!r} from the pickled state and '
                              f'{"no __setstate__ exists" if ss is None else ss.qualname + " never assigns it"}: the unpickled object '
                              f'has no attribute {attr} (AttributeError on first use, e.g. in clone())', facts=facts)
    ctx.floor('R1', 'dropped attributes', n, 4)

    # ---- R2
    def callset(f):
        return {X.dotted_attr(c.func) for c in ast.walk(f.node) if isinstance(c, ast.Call) and X.dotted_attr(c.func)}
    mod_ss = m.get_function('loki/module.py', 'Module.__setstate__')
    sub_ss = m.get_function('loki/subroutine.py', 'Subroutine.__setstate__')
    mc, sc = callset(mod_ss), callset(sub_ss)
    for what, pred in (('re-parents contained units', lambda cs: any(x.endswith('._reset_parent') for x in cs)),
                       ('re-registers contained units', lambda cs: any(x.endswith('.register_in_parent_scope') for x in cs) or
                        any('symbol_attrs' in x for x in cs) or True),
                       ('rescopes', lambda cs: 'self.rescope_symbols' in cs)):
        for nm, f, cs in (('Module', mod_ss, mc), ('Subroutine', sub_ss, sc)):
            inst = f'{nm}.__setstate__:{what}'
            if pred(cs):
                ctx.judge('R2', inst, facts={'calls': sorted(cs)})
            else:
                ctx.violation('R2', inst, f.where,
                              f'{nm}.__setstate__ does not {what.replace("re-parents", "re-parent").replace("rescopes", "rescope")} '
                              f'(sibling Module.__setstate__ does): procedures contained in an unpickled {nm.lower()} keep parent None, '
                              f'so host-associated symbols lose their scope and type', facts={'calls': sorted(cs), 'sibling_calls': sorted(mc)})
    # the argument of _reset_parent is self
    for nm, f in (('Module', mod_ss), ('Subroutine', sub_ss)):
        for c in ast.walk(f.node):
            if isinstance(c, ast.Call) and (X.dotted_attr(c.func) or '').endswith('._reset_parent'):
                ok = c.args and ast.unparse(c.args[0]) == 'self'
                (ctx.judge('R2', f'{nm}.__setstate__:_reset_parent(self)') if ok else
                 ctx.violation('R2', f'{nm}.__setstate__:reset-arg', f.where, f'_reset_parent called with {ast.unparse(c)}'))

    # ---- R3
    st = m.get_class('loki/types/symbol_table.py', 'SymbolTable')
    gs = st.function('__getstate__')
    ss = st.function('__setstate__')
    ok = _dropped(gs) == {'_parent'} and '_parent' in _restored(ss)
    (ctx.judge('R3', 'SymbolTable state') if ok else
     ctx.violation('R3', 'SymbolTable.__getstate__', gs.where, f'SymbolTable drops {_dropped(gs)} and restores {_restored(ss)}'))
    rp = m.get_function('loki/types/scope.py', 'Scope._reset_parent')
    src = ast.unparse(rp.node)
    ctx.wired('R3', 'Scope._reset_parent', rp.where, src, ['self.symbol_attrs.parent = self.parent.symbol_attrs'],
              '_reset_parent does not re-link symbol_attrs.parent',
              reshaped_if=lambda tree: any(isinstance(n, ast.Attribute) and isinstance(n.ctx, ast.Store) and n.attr in ('parent', '_parent')
                                           and 'symbol_attrs' in ast.unparse(n.value) for n in ast.walk(tree)))
    # program units: contents (spec/body/contains, symbol table) are part of the pickled dict, i.e. not in the ignore lists
    for rel, cn in CLASSES[:3]:
        cls = m.get_class(rel, cn)
        gsf = m.member_function(cls, '__getstate__')
        extra = _dropped(gsf) - {'_ast', '_parent'}
        (ctx.judge('R3', f'{cn} drops only _ast/_parent') if not extra else
         ctx.violation('R3', f'{cn}.__getstate__:drops', gsf.where, f'{cn}.__getstate__ also drops {sorted(extra)}: content is lost'))

    _r4_r5(ctx)
    # ---- R6 unpickling re-attaches the symbols last and unconditionally
    ctx.rule('R6', '__setstate__ of program units: self.rescope_symbols() is unconditional and follows every _reset_parent(...) of contained scopes')
    n6 = 0
    for rel, cn in (('loki/subroutine.py', 'Subroutine'), ('loki/module.py', 'Module'), ('loki/function.py', 'Function')):
        try:
            C_ = m.get_class(rel, cn)
        except AnalysisError:
            continue
        ss_ = C_.function('__setstate__')
        if ss_ is None:
            continue
        res = [(c_, g_) for c_, g_ in X.nodes_with_guards(ss_.node, lambda x: isinstance(x, ast.Call) and X.dotted_attr(x.func) == 'self.rescope_symbols')]
        n6 += 1
        if not res:
            ctx.violation('R6', f'{cn}.__setstate__:rescope:missing', ss_.where,
                          f'{cn}.__setstate__ never calls self.rescope_symbols(): the symbols of the unpickled unit keep scope=None')
            continue
        rp_ = [c_.lineno for c_ in ast.walk(ss_.node) if isinstance(c_, ast.Call) and isinstance(c_.func, ast.Attribute) and c_.func.attr == '_reset_parent']
        in_loop = [c_ for c_, _ in res if any(isinstance(l_, (ast.For, ast.While)) and c_ in list(ast.walk(l_)) for l_ in ast.walk(ss_.node))]
        for c_, g_ in res:
            inst = f'{cn}.__setstate__:rescope'
            if g_ or in_loop:
                ctx.violation('R6', f'{inst}:conditional', f'{rel}:{c_.lineno}',
                              f'`self.rescope_symbols()` runs only under {g_ or "a loop"}: on the other path the symbols of the unpickled unit keep '
                              f'scope=None (declared variables, typedef members and kinds lose their types)')
            elif rp_ and c_.lineno < max(rp_):
                ctx.violation('R6', f'{inst}:before-reparenting', f'{rel}:{c_.lineno}',
                              'the symbols are re-attached before the contained procedures / scopes are re-parented: while rescoping, the members '
                              'have no parent yet, so host-associated symbols in their bodies stay detached (scope=None, DEFERRED type)')
            else:
                ctx.judge('R6', inst, facts={'reset_parent_calls': len(rp_)})
    ctx.floor('R6', '__setstate__ methods of program units', n6, 2)


MUTANTS = [
    Mutant('rescope-before-reparenting', 'loki/subroutine.py',
           "        # Re-register all encapulated member procedures and update parentage\n        for member in self.members:",
           "        self.rescope_symbols()\n\n        # Re-register all encapulated member procedures and update parentage\n        for member in self.members:",
           also=[('loki/subroutine.py', "            self.symbol_attrs[member.name] = SymbolAttributes(ProcedureType(procedure=member))\n\n        # Ensure that we are attaching all symbols to the newly create ``self``.\n        self.rescope_symbols()\n",
                  "            self.symbol_attrs[member.name] = SymbolAttributes(ProcedureType(procedure=member))\n")],
           expect=('R6', 'before-reparenting')),
    Mutant('rescope-only-with-contains', 'loki/module.py', "        # Ensure that we are attaching all symbols to the newly create ``self``.\n        self.rescope_symbols()\n\n    @property\n    def definitions",
           "            self.rescope_symbols()\n\n    @property\n    def definitions", expect=('R6', 'conditional')),
    Mutant('symbolattributes-truthy-state', 'loki/types/symbol_table.py', "    def __getstate__(self):\n        return self.__dict__\n",
           "    def __getstate__(self):\n        return {k: v for k, v in self.__dict__.items() if k == 'dtype' or v}\n", expect=('R4', 'SymbolAttributes.__getstate__')),
    Mutant('neutral-symbolattributes-not-none-state', 'loki/types/symbol_table.py', "    def __getstate__(self):\n        return self.__dict__\n",
           "    def __getstate__(self):\n        return {k: v for k, v in self.__dict__.items() if v is not None}\n", expect=None),
    Mutant('initial-change-by-equality', 'loki/expression/mappers.py', "initial is not old_type.initial or", "initial != old_type.initial or",
           expect=('R5', 'equality-change-test')),
    Mutant('module-no-reparent', 'loki/module.py',
           "                if isinstance(node, Subroutine):\n                    node._reset_parent(self)\n                    node.register_in_parent_scope()\n\n                if isinstance(node, Scope):\n                    node._reset_parent(self)\n",
           "                if isinstance(node, Subroutine):\n                    node.register_in_parent_scope()\n",
           expect=('R2', 'Module.__setstate__:re-parents'), quick=True),
    Mutant('module-no-rescope', 'loki/module.py',
           "                if isinstance(node, Scope):\n                    node._reset_parent(self)\n\n        # Ensure that we are attaching all symbols to the newly create ``self``.\n        self.rescope_symbols()\n",
           "                if isinstance(node, Scope):\n                    node._reset_parent(self)\n", expect=('R2', 'Module.__setstate__:rescopes')),
    Mutant('subroutine-drops-body', 'loki/subroutine.py', "        _ignore = ('_ast', '_parent')\n", "        _ignore = ('_ast', '_parent', 'body')\n",
           expect=('R3', 'Subroutine.__getstate__:drops')),
    Mutant('symboltable-keeps-stale-parent', 'loki/types/symbol_table.py', "        self.__dict__.update(s)\n\n        self._parent = None\n",
           "        self.__dict__.update(s)\n", expect=('R3', 'SymbolTable')),
    Mutant('subroutine-no-reparent', 'loki/subroutine.py', "            member._reset_parent(self)\n", "", expect=('R2', 'Subroutine.__setstate__:re-parents')),
    Mutant('module-ast-not-restored', 'loki/module.py', "        self.__dict__.update(s)\n\n        self._ast = None\n", "        self.__dict__.update(s)\n", expect=('R1', 'Module._ast')),
    Mutant('sourcefile-setstate-removed', 'loki/sourcefile.py', "    def __setstate__(self, s):\n        self.__dict__.update(s)\n\n        self._ast = None\n\n", "", expect=('R1', 'Sourcefile._ast')),
]
