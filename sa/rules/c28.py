"""
C28  Inlining preserves program behaviour.

Two clauses have a structural reading.
 R1  procedure-relative statements are not moved blindly: ``RETURN`` means "leave
     the procedure that textually contains it".  Copying a callee body into the
     caller changes its meaning (the *caller* returns).  Necessary condition: some
     function reachable (resolved cross-module call graph) from the body-inlining
     entry points references ``ReturnStmt`` (to reject or rewrite it).  If none
     does, the inliner's output is the same function of the callee body whether
     or not it contains a RETURN -- wrong whenever it does.
 R2  shadow renaming agrees between declaration and use: the new name given to a
     clashing callee local in the callee's spec and in its body is the same
     expression.
 R3  only the mapped call nodes are replaced (mapping keyed by the calls).
Not decided: argument remapping, PRESENT handling, statement-function / elemental
inlining arithmetic.
"""
import ast

from sa import exprs as X, callgraph as CG
from sa.model import AnalysisError
from sa.mutate import Mutant

PROP = 'C28'

META = dict(
    technique='reachability over a resolved cross-module call graph + symbol-reference test (does any reachable function mention '
              'ReturnStmt); sibling-expression comparison of the two renaming sites; call-site shape checks',
    level='Decides two necessary conditions: an inliner that copies procedure bodies must look at RETURN statements somewhere; the '
          'rename of clashing locals uses one naming scheme in spec and body. Does NOT decide argument mapping or value equality.',
    note='Call graph: names via import tables, self-methods via MRO, Class(...) -> its visit_/map_ handlers; unresolved callees '
         'are listed in the evidence.',
    ref='DESIGN.md section 3, C28',
)

PR = 'loki/transformations/inline/procedures.py'
FN = 'loki/transformations/inline/functions.py'
ENTRIES = [(PR, 'inline_subroutine_calls'), (PR, 'map_call_to_procedure_body'), (FN, 'inline_function_calls')]


def run(ctx):
    m = ctx.model
    ctx.rule('R1', 'some function reachable from inline_subroutine_calls / map_call_to_procedure_body / inline_function_calls '
                   'references ReturnStmt')
    ctx.rule('R2', 'the renamed clone expression for clashing callee locals is identical in the spec mapper and the body map')
    ctx.rule('R3', 'call_map is keyed by the call statements being inlined')
    for rel, name in ENTRIES:
        f = m.get_function(rel, name)
        seen, unres = CG.reachable(m, [f], limit=250)
        hits = [q for q, g in seen.items() if CG.mentions(g, {'ReturnStmt'})]
        facts = {'entry': name, 'reachable_functions': len(seen), 'sample': sorted(seen)[:12], 'mention_ReturnStmt': hits[:5],
                 'unresolved_callees': sorted(unres)[:15]}
        ctx.floor('R1', f'functions reachable from {name}', len(seen), 3)
        if hits:
            ctx.judge('R1', name, facts=facts)
        else:
            ctx.violation('R1', f'{name}:return-not-considered', f.where,
                          f'none of the {len(seen)} functions reachable from {name} references ReturnStmt: a RETURN inside an inlined '
                          f'procedure body is copied into the caller verbatim and then leaves the *caller* (e.g. `if (n < 0) return` '
                          f'in an internal procedure makes the host return early)', facts=facts)
    # ---- R2
    f = m.get_function(PR, 'inline_subroutine_calls')
    # the two renaming sites: `<v>.clone(name=<expr over v>)` with v the variable being renamed (whatever it is called);
    # the name expressions are compared after replacing the receiver by a placeholder
    clones = [c for c in ast.walk(f.node) if isinstance(c, ast.Call) and isinstance(c.func, ast.Attribute) and c.func.attr == 'clone'
              and isinstance(c.func.value, ast.Name) and any(k.arg == 'name' for k in c.keywords)]
    import re as _re
    names = sorted({_re.sub(r'\b%s\b' % _re.escape(c.func.value.id), '<v>', ast.unparse([k.value for k in c.keywords if k.arg == 'name'][0]))
                    for c in clones})
    if len(clones) < 2:
        raise AnalysisError('inline_subroutine_calls: the two renaming sites were not found')
    (ctx.judge('R2', 'shadow rename expression', facts={'expressions': names, 'sites': len(clones)}) if len(names) == 1 else
     ctx.violation('R2', 'inline_subroutine_calls:shadow-rename', f.where,
                   f'clashing callee locals are renamed with different expressions in declarations and body: {names}'))
    # duplicates exclude dummies and compare case-insensitively
    pvn = (X.names_assigned_from(f.node, 'routine.variable_map') or ['parent_variables'])[0]
    dup = [n for n in ast.walk(f.node) if isinstance(n, ast.Assign) and isinstance(n.targets[0], ast.Name)
           and 'callee.variables' in ast.unparse(n.value) and pvn in ast.unparse(n.value)]
    txt = ast.unparse(dup[0].value) if dup else ''
    ok = f'.name in {pvn}' in txt and 'callee._dummies' in txt
    (ctx.judge('R2', 'duplicates exclude dummy arguments', facts={'expr': txt}) if ok else
     ctx.violation('R2', 'inline_subroutine_calls:duplicates', f.where, f'clash detection is `{txt}`'))
    # ---- R3
    cpar = [a.arg for a in f.node.args.args]
    cm = [n for n in ast.walk(f.node) if isinstance(n, ast.Assign) and isinstance(n.value, ast.DictComp)
          and 'map_call_to_procedure_body' in ast.unparse(n.value)]
    ok = any(len(n.value.generators) == 1 and isinstance(n.value.generators[0].target, ast.Name)
             and ast.unparse(n.value.generators[0].iter) in cpar and not n.value.generators[0].ifs
             and ast.unparse(n.value.key) == n.value.generators[0].target.id for n in cm)
    (ctx.judge('R3', 'mapping keyed by the inlined calls') if ok else
     ctx.violation('R3', 'inline_subroutine_calls:call_map', f.where, 'the call->body mapping is not keyed by exactly the calls to inline'))


MUTANTS = [
    Mutant('rename-mismatch', PR, "            var_map[v] = v.clone(name=f'{callee.name}_{v.name}')", "            var_map[v] = v.clone(name=f'{callee.name}_{v.name}_')",
           expect=('R2', 'shadow-rename'), quick=True),
    Mutant('repair-return-check', PR, "    assert isinstance(callee, Subroutine)\n\n    # Prevent shadowing",
           "    assert isinstance(callee, Subroutine)\n    if FindNodes(ir.ReturnStmt).visit(callee.body):\n        raise NotImplementedError('RETURN in inlined procedure')\n\n    # Prevent shadowing",
           expect=None),
]
