"""
C28  Inlining preserves program behaviour.

Two clauses have a structural reading.
 R1  procedure-relative statements are not moved blindly: ``RETURN`` means "leave
     the procedure that textually contains it".  Copying a callee body into the
     caller changes its meaning (the *caller* returns).  Necessary condition: some
     function reachable (resolved cross-module call graph) from the body-inlining
     entry points references ``ReturnStmt`` (to reject or rewrite it).  If none
     does, the inliner's output is the same function of the callee body whether
     or not it contains a RETURN -- wrong whenever it does.
 R2  shadow renaming agrees between declaration and use: the new name given to a
     clashing callee local in the callee's spec and in its body is the same
     expression.
 R3  only the mapped call nodes are replaced (mapping keyed by the calls).
 R4  expression values are not defaulted by truthiness: in the inliner a bound /
     index taken from a declaration is never written ``<expr> or IntLiteral(k)``
     (``IntLiteral(0)`` is falsy, so a declared lower bound 0 would silently
     become k and every remapped subscript shifts), and no bound of a range
     (``.lower`` / ``.upper`` / ``.start`` / ``.stop``) is tested for truth: an
     explicit bound 0 must not be taken for an absent one.
 R5  one notion of "the result variable": every filter of
     ``inline_function_calls`` that excludes the function result by comparing a
     variable's name with ``callee.<attr>`` uses the same attribute,
     ``result_name`` (for ``function f(..) result(r)`` the result is r, not f).
 R6  name clashes are decided case-insensitively: in the inline package a
     membership test of an unfolded ``x.name`` goes to a case-insensitive container
     (``variable_map`` etc.), never to a set / list / dict built from raw ``.name``s
     -- ``tmp`` and ``TMP`` are one Fortran variable, and a callee local that is
     not renamed ends up using the caller's variable.
 R7  a restriction stored by the inline-call retriever (``self.functions``,
     ``self.inline_elementals_only``) is consulted by the test that decides
     whether the arguments of an inline call are searched: arguments of calls that
     are *not* inlined must be searched, or ``g(f(x))`` hides ``f``.
Not decided: argument remapping, PRESENT handling, statement-function / elemental
inlining arithmetic.
"""
import ast

from sa import exprs as X, callgraph as CG
from sa.model import AnalysisError
from sa.mutate import Mutant

PROP = 'C28'

META = dict(
    technique='reachability over a resolved cross-module call graph + symbol-reference test (does any reachable function mention '
              'ReturnStmt); sibling-expression comparison of the two renaming sites; call-site shape checks',
    level='Decides two necessary conditions: an inliner that copies procedure bodies must look at RETURN statements somewhere; the '
          'rename of clashing locals uses one naming scheme in spec and body. Does NOT decide argument mapping or value equality.',
    note='Call graph: names via import tables, self-methods via MRO, Class(...) -> its visit_/map_ handlers; unresolved callees '
         'are listed in the evidence.',
    ref='DESIGN.md section 3, C28',
)

PR = 'loki/transformations/inline/procedures.py'
FN = 'loki/transformations/inline/functions.py'
ENTRIES = [(PR, 'inline_subroutine_calls'), (PR, 'map_call_to_procedure_body'), (FN, 'inline_function_calls')]


def run(ctx):
    m = ctx.model
    run_r67(ctx)
    ctx.rule('R1', 'some function reachable from inline_subroutine_calls / map_call_to_procedure_body / inline_function_calls '
                   'references ReturnStmt')
    ctx.rule('R2', 'the renamed clone expression for clashing callee locals is identical in the spec mapper and the body map')
    ctx.rule('R3', 'call_map is keyed by the call statements being inlined')
    for rel, name in ENTRIES:
        f = m.get_function(rel, name)
        seen, unres = CG.reachable(m, [f], limit=250)
        hits = [q for q, g in seen.items() if CG.mentions(g, {'ReturnStmt'})]
        facts = {'entry': name, 'reachable_functions': len(seen), 'sample': sorted(seen)[:12], 'mention_ReturnStmt': hits[:5],
                 'unresolved_callees': sorted(unres)[:15]}
        ctx.floor('R1', f'functions reachable from {name}', len(seen), 3)
        if hits:
            ctx.judge('R1', name, facts=facts)
        else:
            ctx.violation('R1', f'{name}:return-not-considered', f.where,
                          f'none of the {len(seen)} functions reachable from {name} references ReturnStmt: a RETURN inside an inlined '
                          f'procedure body is copied into the caller verbatim and then leaves the *caller* (e.g. `if (n < 0) return` '
                          f'in an internal procedure makes the host return early)', facts=facts)
    # ---- R2
    f = m.get_function(PR, 'inline_subroutine_calls')
    # the two renaming sites: `<v>.clone(name=<expr over v>)` with v the variable being renamed (whatever it is called);
    # the name expressions are compared after replacing the receiver by a placeholder
    clones = [c for c in ast.walk(f.node) if isinstance(c, ast.Call) and isinstance(c.func, ast.Attribute) and c.func.attr == 'clone'
              and isinstance(c.func.value, ast.Name) and any(k.arg == 'name' for k in c.keywords)]
    import re as _re
    names = sorted({_re.sub(r'\b%s\b' % _re.escape(c.func.value.id), '<v>', ast.unparse([k.value for k in c.keywords if k.arg == 'name'][0]))
                    for c in clones})
    if len(clones) < 2:
        raise AnalysisError('inline_subroutine_calls: the two renaming sites were not found')
    (ctx.judge('R2', 'shadow rename expression', facts={'expressions': names, 'sites': len(clones)}) if len(names) == 1 else
     ctx.violation('R2', 'inline_subroutine_calls:shadow-rename', f.where,
                   f'clashing callee locals are renamed with different expressions in declarations and body: {names}'))
    # duplicates exclude dummies and compare case-insensitively
    pvn = (X.names_assigned_from(f.node, 'routine.variable_map') or ['parent_variables'])[0]
    dup = [n for n in ast.walk(f.node) if isinstance(n, ast.Assign) and isinstance(n.targets[0], ast.Name)
           and 'callee.variables' in ast.unparse(n.value) and pvn in ast.unparse(n.value)]
    txt = ast.unparse(dup[0].value) if dup else ''
    ok = f'.name in {pvn}' in txt and 'callee._dummies' in txt
    (ctx.judge('R2', 'duplicates exclude dummy arguments', facts={'expr': txt}) if ok else
     ctx.violation('R2', 'inline_subroutine_calls:duplicates', f.where, f'clash detection is `{txt}`'))
    # ---- R3
    cpar = [a.arg for a in f.node.args.args]
    cm = [n for n in ast.walk(f.node) if isinstance(n, ast.Assign) and isinstance(n.value, ast.DictComp)
          and 'map_call_to_procedure_body' in ast.unparse(n.value)]
    ok = any(len(n.value.generators) == 1 and isinstance(n.value.generators[0].target, ast.Name)
             and ast.unparse(n.value.generators[0].iter) in cpar and not n.value.generators[0].ifs
             and ast.unparse(n.value.key) == n.value.generators[0].target.id for n in cm)
    (ctx.judge('R3', 'mapping keyed by the inlined calls') if ok else
     ctx.violation('R3', 'inline_subroutine_calls:call_map', f.where, 'the call->body mapping is not keyed by exactly the calls to inline'))

    # ---- R4
    ctx.rule('R4', 'loki/transformations/inline: no `<expression> or (sym.)IntLiteral(...)` defaulting and no truth test of a range bound (.lower/.upper/.start/.stop)')
    ctx.rule('R5', 'inline_function_calls: all name comparisons against callee.<attr> that exclude the result variable use result_name')
    nfun = 0
    hits = []
    for mod in m.all_repo_modules(packages=('loki/transformations/inline',)):
        for fn_ in [n for n in ast.walk(mod.tree) if isinstance(n, (ast.FunctionDef, ast.AsyncFunctionDef))]:
            nfun += 1
            for b_ in ast.walk(fn_):
                if isinstance(b_, ast.BoolOp) and isinstance(b_.op, ast.Or) and isinstance(b_.values[-1], ast.Call) \
                        and X.call_name_of(b_.values[-1]) in ('IntLiteral', 'Literal', 'FloatLiteral', 'LogicLiteral') \
                        and not any(h[2] is b_ for h in hits):
                    hits.append((mod, fn_, b_))
            for o_, t_ in X.truthy_bound_uses(fn_):
                if not any(h[2] is t_ for h in hits):
                    hits.append((mod, fn_, t_))
    ctx.floor('R4', 'functions of the inline package', nfun, 20)
    if hits:
        for mod, fn_, b_ in hits:
            ctx.violation('R4', f'{fn_.name}:truthiness-default', f'{mod.relpath}:{b_.lineno}',
                          f'`{ast.unparse(b_)}` replaces an expression by a default whenever it is falsy: IntLiteral(0) / LogicLiteral(false) '
                          f'are falsy, so a declared lower bound 0 is taken for "no bound" and the remapped subscripts shift by one')
    else:
        ctx.judge('R4', 'no truthiness-based defaulting of expression values', facts={'functions': nfun})
    FNS = 'loki/transformations/inline/functions.py'
    ifc = m.get_function(FNS, 'inline_function_calls')
    attrs = []
    for c_ in ast.walk(ifc.node):
        if isinstance(c_, ast.Compare) and len(c_.ops) == 1 and isinstance(c_.ops[0], (ast.Eq, ast.NotEq)):
            for side in (c_.left, c_.comparators[0]):
                for a_ in ast.walk(side):
                    if isinstance(a_, ast.Attribute) and isinstance(a_.value, ast.Name) and a_.value.id == 'callee' \
                            and a_.attr in ('name', 'result_name', 'basename'):
                        other = c_.comparators[0] if side is c_.left else c_.left
                        if '.name' in ast.unparse(other):
                            attrs.append((a_.attr, c_.lineno, ast.unparse(c_)))
    ctx.floor('R5', 'result-variable exclusions in inline_function_calls', len(attrs), 2)
    bad = [x for x in attrs if x[0] != 'result_name']
    if bad:
        ctx.violation('R5', 'inline_function_calls:result-variable-attr', f'{ifc.module.relpath}:{bad[0][1]}',
                      f'`{bad[0][2]}` identifies the function result by callee.{bad[0][0]} while the other filters and the redirection of the '
                      f'result use callee.result_name: for `function f(..) result(r)` the result variable r is renamed like an ordinary '
                      f'clashing local and the value assigned in the inlined body never reaches the call site',
                      facts={'comparisons': [x[2] for x in attrs]})
    else:
        ctx.judge('R5', 'result variable identified by result_name everywhere', facts={'comparisons': [x[2] for x in attrs]})


CASE_INSENSITIVE_MAPS = ('variable_map', 'symbol_attrs', 'imported_symbol_map', 'symbol_map', 'import_map', 'subroutine_map',
                         'interface_symbols', 'member_map', 'procedure_map', 'all_imports_map', 'typedef_map')


def run_r67(ctx):
    m = ctx.model
    ctx.rule('R6', 'loki/transformations/inline: a Fortran name tested for membership without case folding (`x.name in P`) is looked up in a '
                   'case-insensitive container -- not in a set / list / dict of raw `.name`s')
    ctx.rule('R7', 'a restriction set stored by an expression retriever (`self.functions`) is consulted by the handler that decides whether the '
                   'arguments of an inline call are searched')
    n6 = 0
    for mod in m.all_repo_modules(packages=('loki/transformations/inline',)):
        for fn_ in [x for x in ast.walk(mod.tree) if isinstance(x, (ast.FunctionDef, ast.AsyncFunctionDef))]:
            for c in ast.walk(fn_):
                if not (isinstance(c, ast.Compare) and len(c.ops) == 1 and isinstance(c.ops[0], (ast.In, ast.NotIn)) and isinstance(c.left, ast.Attribute)
                        and c.left.attr == 'name' and isinstance(c.comparators[0], ast.Name)):
                    continue
                P = c.comparators[0].id
                defs = [a.value for a in ast.walk(fn_) if isinstance(a, ast.Assign) and any(isinstance(t, ast.Name) and t.id == P for t in a.targets)]
                if len(defs) != 1:
                    continue
                d = defs[0]
                n6 += 1
                inst = f'{mod.relpath}:{fn_.name}:{ast.unparse(c)[:60]}'
                raw = isinstance(d, (ast.SetComp, ast.ListComp, ast.DictComp, ast.GeneratorExp)) or (
                    isinstance(d, ast.Call) and X.call_name_of(d) in ('set', 'list', 'tuple', 'dict', 'frozenset', 'OrderedSet') and d.args
                    and isinstance(d.args[0], (ast.GeneratorExp, ast.ListComp, ast.SetComp)))
                if raw:
                    comp = d if not isinstance(d, ast.Call) else d.args[0]
                    elt = comp.key if isinstance(comp, ast.DictComp) else comp.elt
                    folded = any(isinstance(k, ast.Call) and isinstance(k.func, ast.Attribute) and k.func.attr in ('lower', 'upper', 'casefold')
                                 for k in ast.walk(elt))
                    names = any(isinstance(k, ast.Attribute) and k.attr == 'name' for k in ast.walk(elt))
                    if names and not folded:
                        ctx.violation('R6', f'{fn_.name}:case-sensitive-name-container', f'{mod.relpath}:{c.lineno}',
                                      f'`{ast.unparse(c)}` looks a Fortran name up in `{P} = {ast.unparse(d)[:70]}`, a container of raw names: `tmp` in the '
                                      f'callee and `TMP` in the caller are the same variable but do not clash here, so the callee local is not '
                                      f'renamed and the inlined body uses the caller\'s variable', instance=inst)
                        continue
                ctx.judge('R6', inst, facts={'container': ast.unparse(d)[:80]})
    ctx.floor('R6', 'unfolded name membership tests in the inline package', n6, 1)
    # ---- R7
    F = 'loki/transformations/inline/functions.py'
    fmod = m.module_by_path(F)
    n7 = 0
    for cls in [c for c in ast.walk(fmod.tree) if isinstance(c, ast.ClassDef)]:
        init = next((f for f in cls.body if isinstance(f, ast.FunctionDef) and f.name == '__init__'), None)
        handler = next((f for f in cls.body if isinstance(f, ast.FunctionDef) and f.name == 'map_inline_call'), None)
        if init is None or handler is None:
            continue
        params = {a.arg for a in init.args.args[1:]} | {a.arg for a in init.args.kwonlyargs}
        stored = {}
        for a in ast.walk(init):
            if isinstance(a, ast.Assign) and isinstance(a.targets[0], ast.Attribute) and isinstance(a.targets[0].value, ast.Name) \
                    and a.targets[0].value.id == 'self' and any(isinstance(n_, ast.Name) and n_.id in params for n_ in ast.walk(a.value)):
                stored[a.targets[0].attr] = a
        recs = [i for i in ast.walk(handler) if isinstance(i, ast.If) and any(
            isinstance(l, ast.For) and 'parameters' in ast.unparse(l.iter) for l in ast.walk(i))]
        if not recs:
            raise AnalysisError(f'{cls.name}.map_inline_call: the guarded recursion into the call parameters was not found')
        for attr in sorted(stored):
            n7 += 1
            inst = f'{cls.name}.map_inline_call:self.{attr}'
            used = any(isinstance(n_, ast.Attribute) and n_.attr == attr and isinstance(n_.value, ast.Name) and n_.value.id == 'self'
                       for i in recs for n_ in ast.walk(i.test))
            if used:
                ctx.judge('R7', inst)
            else:
                ctx.violation('R7', f'{cls.name}.map_inline_call:restriction-ignored:{attr}', f'{F}:{recs[0].lineno}',
                              f'`self.{attr}` restricts which calls are inlined, but the test that decides whether the arguments of an inline call '
                              f'are searched (`{ast.unparse(recs[0].test)[:90]}`) does not look at it: in `y = g(f(x))` with only f selected, the '
                              f'call f(x) is never found; the member f is removed from CONTAINS while it is still called', instance=inst)
    ctx.floor('R7', 'restrictions of the inline-call retriever', n7, 2)


MUTANTS = [
    Mutant('clash-test-on-raw-names', 'loki/transformations/inline/procedures.py', "    parent_variables = routine.variable_map\n",
           "    parent_variables = {v.name for v in routine.variables}\n", expect=('R6', 'case-sensitive-name-container')),
    Mutant('neutral-clash-test-folded', 'loki/transformations/inline/procedures.py', "    parent_variables = routine.variable_map\n",
           "    parent_variables = CaseInsensitiveDict((v.name, v) for v in routine.variables)\n", expect=None),
    Mutant('restriction-ignored-for-arguments', 'loki/transformations/inline/functions.py',
           "                    not(expr.procedure_type.is_function and expr.procedure_type.is_elemental)) or\\\n                    (self.functions and expr.routine not in self.functions):",
           "                    not(expr.procedure_type.is_function and expr.procedure_type.is_elemental)):", expect=('R7', 'restriction-ignored:functions')),
    Mutant('lbound-defaulted-by-truthiness', PR, "                decl_lbound = decl_lbounds[index][0]\n", "                decl_lbound = decl_lbounds[index][0] or sym.IntLiteral(1)\n",
           expect=('R4', 'truthiness-default')),
    Mutant('section-bound-defaulted-by-truthiness', PR, "                    _lower = dim.lower if dim.lower is not None else decl_lbounds[index][1]\n",
           "                    _lower = dim.lower or decl_lbounds[index][1]\n", expect=('R4', 'truthiness-default')),
    Mutant('passed-section-tested-by-truthiness', PR, "(lower := val.dimensions[index].lower) is not None:", "(lower := val.dimensions[index].lower):",
           expect=('R4', 'truthiness-default')),
    Mutant('result-excluded-by-function-name', 'loki/transformations/inline/functions.py', "        if v.name.lower() != callee.result_name.lower()\n", "        if v.name.lower() != callee.name.lower()\n",
           expect=('R5', 'result-variable-attr')),
    Mutant('rename-mismatch', PR, "            var_map[v] = v.clone(name=f'{callee.name}_{v.name}')", "            var_map[v] = v.clone(name=f'{callee.name}_{v.name}_')",
           expect=('R2', 'shadow-rename'), quick=True),
    Mutant('repair-return-check', PR, "    assert isinstance(callee, Subroutine)\n\n    # Prevent shadowing",
           "    assert isinstance(callee, Subroutine)\n    if FindNodes(ir.ReturnStmt).visit(callee.body):\n        raise NotImplementedError('RETURN in inlined procedure')\n\n    # Prevent shadowing",
           expect=None),
]
