"""
C21  The scheduler graph is exactly the pruned dependency closure of the seeds.

 R1  pruning guards: expansion of an item is control-dependent on
     ``item.expand``; a dependency is inserted only when it is not blocked;
     disabled dependencies are filtered when dependency items are created;
     ``is_ignored`` is inherited-or-matched; every new child is queued.
 R2  identity keys are not case-folded paths: a value derived from a file-system
     path must not pass through ``.lower()`` on its way to an ``item_cache`` key /
     FileItem name (file systems are case sensitive: two files whose paths
     differ only in case collapse to one item and one of them is never scanned).
 R3  discovery enumerates every source suffix under every search path and
     registers every definition of every file item.
 R4  innermost import wins (orientation x direction): ``get_all_import_map``
     collects the scope chain inner-first and builds the map from the *reversed*
     list (or outer-first and non-reversed): later entries overwrite earlier
     ones, so the last one written must be the innermost import.
 R5  documented scope/pattern matching: the key matchers that implement
     disable / block / ignore receive the documented flags
     (``ItemFactory._is_ignored``: pattern matching + parent scopes over the
     union of config.disable and the per-item list; ``_add_children``: ignore
     list with parent scopes).
 R6  the matcher itself implements the documented rule: in
     ``SchedulerConfig.match_item_keys`` a key is selected, with pattern matching
     on, exactly when ``fnmatch.filter(item_names, key)`` is non-empty (a literal
     hit may be added, nothing may be taken away), and without pattern matching
     exactly when it is one of the item names -- truth table of the selection
     predicate over its atomic conditions; keys and names are compared in lower
     case.
Not decided: closure equality; order dependence of set-based file enumeration
(only matters when two files define the same name, which the property excludes).
"""
import ast

from sa import exprs as X
from sa.model import AnalysisError
from sa.mutate import Mutant

PROP = 'C21'

META = dict(
    technique='control-dependence (guard) extraction for the graph-population loop and dependency insertion; taint from '
              'path-valued parameters through .lower() into cache keys; shape check of the discovery loops',
    level='Decides structural necessary conditions of the pruning rules (expand / block / disable / ignore guards are the '
          'conditions under which children are added) and that file identity is not case-folded. Does NOT decide that the '
          'graph equals the closure.',
    note='Guards are recognised syntactically on today\'s idioms; an unrecognised shape exits 2.',
    ref='DESIGN.md section 3, C21',
)

SG = 'loki/batch/sgraph.py'
FA = 'loki/batch/item_factory.py'
SC = 'loki/batch/scheduler.py'
IT = 'loki/batch/item.py'


def _guards_of(fnode, pred):
    """list of (node, [guard test text]) for nodes satisfying pred, with enclosing if/while tests"""
    out = []

    def rec(stmts, guards):
        for st in stmts:
            if isinstance(st, ast.If):
                rec(st.body, guards + [ast.unparse(st.test)])
                rec(st.orelse, guards + [f'not ({ast.unparse(st.test)})'])
            elif isinstance(st, (ast.For, ast.While)):
                g = guards + ([ast.unparse(st.test)] if isinstance(st, ast.While) else [])
                rec(st.body, g)
            elif isinstance(st, (ast.With, ast.Try)):
                rec(getattr(st, 'body', []), guards)
            else:
                for n in ast.walk(st):
                    if pred(n):
                        out.append((n, guards))
    rec(fnode.body, [])
    return out


def run(ctx):
    m = ctx.model
    ctx.rule('R1', 'guards: _add_children only under item.expand; dependency appended only if not blocked; disable filter in '
                   'create_dependency_items; is_ignored = parent ignored or matched; children queued')
    ctx.rule('R2', 'no .lower() on path-derived values flowing into item_cache keys / FileItem names')
    ctx.rule('R3', 'discovery: glob over all paths x source_suffixes; all definition items of every FileItem are cached')
    G = m.get_class(SG, 'SGraph')
    pop = G.function('_populate')
    calls = _guards_of(pop.node, lambda n: isinstance(n, ast.Call) and X.dotted_attr(n.func) == 'self._add_children')
    if not calls:
        raise AnalysisError('_populate: _add_children call not found')
    qn = (X.names_assigned_from(pop.node, 'deque(') or ['queue'])[0]
    itn = (X.names_assigned_from(pop.node, f'{qn}.popleft()') or ['item'])[0]
    chn = (X.names_assigned_from(pop.node, 'self._add_children(') or ['children'])[0]
    sdn = (X.names_assigned_from(pop.node, 'self._create_item(') or ['item'])[0]
    for c, g in calls:
        if any(x == f'{itn}.expand' for x in g):
            ctx.judge('R1', '_populate:expand-guard', facts={'guards': g})
        else:
            ctx.violation('R1', '_populate:expand-guard', f'{pop.module.relpath}:{c.lineno}',
                          f'children are added under guards {g}: non-expanded items are expanded too')
    ext = _guards_of(pop.node, lambda n: isinstance(n, ast.Call) and X.dotted_attr(n.func) == f'{qn}.extend')
    args = {ast.unparse(c.args[0]) for c, _ in ext}
    (ctx.judge('R1', '_populate:queue', facts={'queued': sorted(args)}) if {sdn, chn} <= args else
     ctx.violation('R1', '_populate:queue', pop.where, f'queue.extend called with {sorted(args)}: seeds/children not all queued'))
    ac = G.function('_add_children')
    ipar = [a.arg for a in ac.node.args.args][1]
    dloop = next((n for n in ast.walk(ac.node) if isinstance(n, ast.For) and 'create_dependency_items' in ast.unparse(n.iter)
                  and isinstance(n.target, ast.Name)), None)
    if dloop is None:
        raise AnalysisError('_add_children: loop over create_dependency_items not found')
    dv = dloop.target.id
    app = _guards_of(ac.node, lambda n: isinstance(n, ast.AugAssign) and isinstance(n.op, ast.Add) and dv in ast.unparse(n.value))
    if not app:
        raise AnalysisError('_add_children: accumulation of the dependencies not found')
    for n, g in app:
        gt = ' and '.join(g)
        if f'{ipar}.block' in gt and f'match_item_keys({dv}.name' in gt and gt.strip().startswith('not'):
            ctx.judge('R1', '_add_children:block-guard', facts={'guard': gt})
        else:
            ctx.violation('R1', '_add_children:block-guard', f'{ac.module.relpath}:{n.lineno}',
                          f'dependency is inserted under `{gt}`: blocked entries are not excluded')
    ign = [n for n in ast.walk(ac.node) if isinstance(n, ast.Assign) and "['is_ignored']" in ast.unparse(n.targets[0])]
    if not ign:
        raise AnalysisError('_add_children: is_ignored assignment not found')
    v = ign[0].value
    txt = ast.unparse(v)
    ok = isinstance(v, ast.BoolOp) and isinstance(v.op, ast.Or) and f'{ipar}.is_ignored' in txt and f'{ipar}.ignore' in txt
    (ctx.judge('R1', '_add_children:ignore-propagation', facts={'value': txt}) if ok else
     ctx.violation('R1', '_add_children:ignore-propagation', f'{ac.module.relpath}:{ign[0].lineno}', f'is_ignored = {txt}'))
    item = m.get_class(IT, 'Item')
    cdi = item.function('create_dependency_items')
    src = ast.unparse(cdi.node)
    filt = [n for n in ast.walk(cdi.node) if isinstance(n, ast.GeneratorExp) and 'self.disable' in ast.unparse(n)]
    ok = bool(filt) and any(isinstance(n.generators[0].target, ast.Name) and any(
        ast.unparse(i) == f'not SchedulerConfig.match_item_keys({n.generators[0].target.id}.name, self.disable)' for i in n.generators[0].ifs)
        for n in filt)
    (ctx.judge('R1', 'create_dependency_items:disable-filter') if ok else
     ctx.violation('R1', 'create_dependency_items:disable-filter', cdi.where, 'disabled dependencies are not filtered out'))
    ctx.wired('R1', 'create_dependency_items:ignore-list', cdi.where, src, ['ignore = [*self.disable, *self.block]'],
              'disable+block list is no longer handed to create_from_ir', tokens={'disable', 'block', 'ignore'})
    ign = X.names_assigned_from(cdi.node, 'self.disable', 'self.block')
    (ctx.judge('R1', 'create_dependency_items:ignore-list passed') if any(
        isinstance(k, ast.keyword) and k.arg == 'ignore' and isinstance(k.value, ast.Name) and k.value.id in ign for k in ast.walk(cdi.node)) else
     ctx.violation('R1', 'create_dependency_items:ignore-list', cdi.where, 'disable+block list is no longer handed to create_from_ir'))

    # ---- R2
    F = m.get_class(FA, 'ItemFactory')
    n2 = 0
    for meth in F.members.values():
        if meth.kind != 'func':
            continue
        f = F.function(meth.name)
        params = {a.arg for a in f.node.args.args}
        for n in ast.walk(f.node):
            if isinstance(n, ast.Assign) and len(n.targets) == 1 and isinstance(n.targets[0], ast.Name):
                val = n.value
                lowers = [c for c in ast.walk(val) if isinstance(c, ast.Call) and isinstance(c.func, ast.Attribute) and c.func.attr == 'lower']
                if not lowers:
                    continue
                inner = ast.unparse(lowers[0].func.value)
                pathy = ('path' in {x.id for x in ast.walk(lowers[0].func.value) if isinstance(x, ast.Name)} & params) or '.path' in inner
                if not pathy:
                    continue
                n2 += 1
                var = n.targets[0].id
                # does var reach an item_cache key or FileItem name?
                sink = False
                for c in ast.walk(f.node):
                    if isinstance(c, ast.Subscript) and 'item_cache' in ast.unparse(c.value) and var in ast.unparse(c.slice):
                        sink = True
                    if isinstance(c, ast.Call) and X.call_name_of(c) in ('FileItem', 'get') and c.args and ast.unparse(c.args[0]) == var \
                            and ('item_cache' in ast.unparse(c.func) or X.call_name_of(c) == 'FileItem'):
                        sink = True
                inst = f'{f.name}:{var}={ast.unparse(val)}'
                if sink:
                    ctx.violation('R2', f'ItemFactory.{f.name}:path-lower', f'{f.module.relpath}:{n.lineno}',
                                  f'`{var} = {ast.unparse(val)}` case-folds a file-system path and uses it as item identity: two files '
                                  f'whose paths differ only in case share one FileItem and the second is never scanned',
                                  facts={'expr': ast.unparse(val)}, instance=inst)
                else:
                    ctx.judge('R2', inst)
    if n2 == 0:
        ctx.judge('R2', 'no path-valued key is case folded')
    # ---- R3
    S = m.get_class(SC, 'Scheduler')
    d = S.function('_discover')
    src = ast.unparse(d.node)
    comps = [n for n in ast.walk(d.node) if isinstance(n, ast.ListComp) and 'glob' in ast.unparse(n)]
    ok = False
    if comps:
        its = {ast.unparse(g.iter) for g in comps[0].generators}
        extv = next((g.target.id for g in comps[0].generators if ast.unparse(g.iter) == 'self.source_suffixes'
                     and isinstance(g.target, ast.Name)), 'ext')
        ok = {'self.paths', 'self.source_suffixes'} <= its and f"f'**/*{{{extv}}}'" in ast.unparse(comps[0])
    (ctx.judge('R3', '_discover:glob', facts={'comprehension': ast.unparse(comps[0]) if comps else None}) if ok else
     ctx.violation('R3', '_discover:glob', d.where, 'file enumeration does not cover all paths x source suffixes recursively'))
    loops = [n for n in ast.walk(d.node) if isinstance(n, ast.For)]
    pln = (X.names_assigned_from(d.node, 'glob(') or ['path_list'])[0]
    ok1 = any(ast.unparse(l.iter) == pln and isinstance(l.target, ast.Name)
              and f'get_or_create_file_item_from_path({l.target.id}' in ast.unparse(l) for l in loops)
    dfn = (X.names_assigned_from(d.node, 'create_definition_items(') or ['definition_items'])[0]
    ok2 = any('create_definition_items' in ast.unparse(l) and f'item_cache.update({dfn})' in ast.unparse(l) for l in loops)
    (ctx.judge('R3', '_discover:file-items') if ok1 else
     ctx.violation('R3', '_discover:file-items', d.where, 'not every enumerated path becomes a FileItem'))
    (ctx.judge('R3', '_discover:definitions') if ok2 else
     ctx.violation('R3', '_discover:definitions', d.where, 'definition items of the file items are not all registered'))
    fi = [n for n in ast.walk(d.node) if isinstance(n, ast.ListComp) and isinstance(n.generators[0].target, ast.Name)
          and f'isinstance({n.generators[0].target.id}, FileItem)' in ast.unparse(n)]
    (ctx.judge('R3', '_discover:all-file-items') if fi and 'item_cache.values()' in ast.unparse(fi[0]) else
     ctx.violation('R3', '_discover:all-file-items', d.where, 'definition discovery does not iterate over all cached FileItems'))
    if X.has(src, 'list(set('):
        ctx.note('_discover enumerates files through a set(): order depends on the hash seed (matters only for duplicate '
                 'definitions, which the property excludes)')
    sfx = S.members.get('source_suffixes')
    if sfx is not None:
        val = m.const(S.module, sfx.node, S)
        ctx.judge('R3', 'source_suffixes', nontrivial=False, facts={'suffixes': list(val) if isinstance(val, (list, tuple)) else str(val)})

    # ---- R4
    ctx.rule('R4', 'get_all_import_map: (inner-first collection, reversed iteration) or (outer-first, forward): innermost import '
                   'is written last into the map')
    ctx.rule('R5', 'match_item_keys call sites for disable/block/ignore carry the documented flags')
    imod = m.module_by_path(IT)
    gim = imod.functions.get('get_all_import_map')
    if gim is None:
        raise AnalysisError('get_all_import_map vanished')
    loop = [n for n in ast.walk(gim.node) if isinstance(n, ast.While)]
    if len(loop) != 1:
        raise AnalysisError('get_all_import_map: scope walk not recognised')
    order = None
    spar = [a.arg for a in gim.node.args.args][0]
    imn = (X.names_assigned_from(gim.node, f'getattr({spar}', "'imports'") or ['imports'])[0]
    for st in loop[0].body:
        if isinstance(st, ast.AugAssign) and ast.unparse(st.target) == imn and isinstance(st.op, ast.Add):
            order = 'inner-first'            # imports += parent imports
        elif isinstance(st, ast.Assign) and ast.unparse(st.targets[0]) == imn and isinstance(st.value, ast.BinOp):
            l, r = ast.unparse(st.value.left), ast.unparse(st.value.right)
            if r == imn and spar in l:
                order = 'outer-first'        # imports = parent imports + imports
            elif l == imn and spar in r:
                order = 'inner-first'
    if order is None:
        raise AnalysisError('get_all_import_map: accumulation of parent imports not recognised')
    gens = [g for n in ast.walk(gim.node) if isinstance(n, ast.GeneratorExp) for g in n.generators if imn in ast.unparse(g.iter)]
    if not gens:
        raise AnalysisError('get_all_import_map: map construction not recognised')
    rev = ast.unparse(gens[0].iter).count('reversed(') % 2 == 1
    inner_last = (order == 'inner-first' and rev) or (order == 'outer-first' and not rev)
    facts = {'collection': order, 'iteration': ast.unparse(gens[0].iter)}
    (ctx.judge('R4', 'get_all_import_map precedence', facts=facts) if inner_last else
     ctx.violation('R4', 'get_all_import_map:precedence', gim.where,
                   f'imports are collected {order} and the map is built from `{ast.unparse(gens[0].iter)}`: the outermost import of a '
                   f'name is written last and shadows a re-import in the inner scope (dependencies resolve to the wrong module)', facts=facts))
    # ---- R5
    ig = F.function('_is_ignored')
    if ig is None:
        raise AnalysisError('ItemFactory._is_ignored vanished')
    calls = [c for c in ast.walk(ig.node) if isinstance(c, ast.Call) and X.call_name_of(c) == 'match_item_keys']
    src = ast.unparse(ig.node)
    ok = bool(calls)
    why = []
    for c in calls:
        kw = {k.arg: ast.unparse(k.value) for k in c.keywords}
        if kw.get('match_item_parents') != 'True':
            ok = False
            why.append(f'`{ast.unparse(c)[:90]}` lacks match_item_parents=True')
        if kw.get('use_pattern_matching') != 'True':
            ok = False
            why.append(f'`{ast.unparse(c)[:90]}` lacks use_pattern_matching=True')
    keys_ok = X.has(src, 'config.disable') and X.has(src, 'ignore')
    if ok and keys_ok:
        ctx.judge('R5', 'ItemFactory._is_ignored', facts={'calls': [ast.unparse(c) for c in calls]})
    else:
        ctx.violation('R5', 'ItemFactory._is_ignored:flags', ig.where,
                      f'disable/block matching in _is_ignored: {why or "config.disable / ignore keys not both matched"}: an entry that names a '
                      f'parent scope (module, derived type) no longer excludes its members')
    ign_call = [c for c in ast.walk(ac.node) if isinstance(c, ast.Call) and X.call_name_of(c) == 'match_item_keys' and 'item.ignore' in ast.unparse(c)]
    kw = {k.arg: ast.unparse(k.value) for k in ign_call[0].keywords} if ign_call else {}
    (ctx.judge('R5', '_add_children ignore matching', facts=kw) if kw.get('match_item_parents') == 'True' else
     ctx.violation('R5', '_add_children:ignore-flags', ac.where, 'ignore matching does not extend to parent scopes'))
    run_r6(ctx)


def run_r6(ctx):
    import itertools
    from sa import boolfun as BF
    m = ctx.model
    ctx.rule('R6', 'match_item_keys: selection predicate == fnmatch.filter(item_names, key) (pattern mode) / key in item_names (plain mode), '
                   'evaluated over all assignments of its atoms')
    C = m.get_class('loki/batch/configure.py', 'SchedulerConfig')
    f = C.function('match_item_keys')
    if f is None:
        raise AnalysisError('SchedulerConfig.match_item_keys vanished')
    rets = [(r, g) for r, g in X.nodes_with_guards(f.node, lambda n: isinstance(n, ast.Return) and n.value is not None, early=True)]
    gens = []
    for r, g in rets:
        ge = next((x for x in ast.walk(r.value) if isinstance(x, (ast.GeneratorExp, ast.ListComp)) and len(x.generators) == 1), None)
        if ge is None:
            raise AnalysisError(f'match_item_keys: `{ast.unparse(r)[:60]}` is not a filter comprehension over the keys')
        mode = 'pattern' if any(g_ == 'use_pattern_matching' for g_ in g) else ('plain' if any(g_ == 'not (use_pattern_matching)' for g_ in g) else None)
        if mode is None:
            raise AnalysisError(f'match_item_keys: return under guards {g} cannot be assigned to a matching mode')
        gens.append((mode, r, ge))
    if {md for md, _, _ in gens} != {'pattern', 'plain'}:
        raise AnalysisError('match_item_keys: expected one return per matching mode')
    for mode, r, ge in gens:
        kv = ge.generators[0].target.id
        names = next((ast.unparse(c.args[0]) for c in ast.walk(ge) if isinstance(c, ast.Call) and (X.dotted_attr(c.func) or '').endswith('fnmatch.filter')), None) \
            or next((ast.unparse(c.comparators[0]) for c in ast.walk(ge) if isinstance(c, ast.Compare) and isinstance(c.ops[0], ast.In)
                     and ast.unparse(c.left) == kv), 'item_names')
        A, B = f'{kv} in {names}', f'fnmatch.filter({names}, {kv})'
        test = ast.BoolOp(op=ast.And(), values=list(ge.generators[0].ifs)) if len(ge.generators[0].ifs) != 1 else ge.generators[0].ifs[0]
        if not ge.generators[0].ifs:
            ctx.violation('R6', f'match_item_keys:{mode}:no-filter', f'{f.module.relpath}:{r.lineno}', 'every key is returned as a match')
            continue
        atoms = BF.leaves(test)
        rows, bad = 0, None
        for vals in itertools.product((False, True), repeat=len(atoms)):
            env = dict(zip(atoms, vals))
            a, b = env.get(A, False), env.get(B, False)
            got = bool(BF.ev(test, env))
            rows += 1
            if mode == 'pattern':
                if B not in env:
                    bad = f'the predicate `{ast.unparse(test)}` never consults `{B}`'
                    break
                if b and not got:
                    bad = f'with {env} the key matches a name as a pattern but is not selected'
                    break
                if not b and not a and got:
                    bad = f'with {env} the key is selected although it matches no name'
                    break
            else:
                if A not in env:
                    bad = f'the predicate `{ast.unparse(test)}` never consults `{A}`'
                    break
                if got != a:
                    bad = f'with {env} the selection differs from `{A}`'
                    break
        inst = f'match_item_keys:{mode}'
        if bad:
            ctx.violation('R6', f'SchedulerConfig.match_item_keys:{mode}-selection', f'{f.module.relpath}:{r.lineno}',
                          f'{bad}: disable / block / ignore entries written with the documented fnmatch syntax '
                          f'(`?`, `[seq]`, `*`) do not prune the items they name')
        else:
            ctx.judge('R6', inst, facts={'atoms': atoms, 'rows': rows})
    # keys folded to lower case before matching
    kparam = [a.arg for a in f.node.args.args]
    folded = [a for a in ast.walk(f.node) if isinstance(a, ast.Assign) and '.lower()' in ast.unparse(a.value) and 'keys' in ast.unparse(a.value)]
    (ctx.judge('R6', 'keys are lower-cased before matching') if folded else
     ctx.violation('R6', 'SchedulerConfig.match_item_keys:keys-not-folded', f.where, 'keys are no longer lower-cased before they are compared with the (lower-case) item names'))


MUTANTS = [
    Mutant('pattern-only-with-star', 'loki/batch/configure.py', "            return tuple(key for key in keys if fnmatch.filter(item_names, key))",
           "            return tuple(key for key in keys if key in item_names or ('*' in key and fnmatch.filter(item_names, key)))",
           expect=('R6', 'pattern-selection')),
    Mutant('neutral-literal-or-pattern', 'loki/batch/configure.py', "            return tuple(key for key in keys if fnmatch.filter(item_names, key))",
           "            return tuple(key for key in keys if key in item_names or fnmatch.filter(item_names, key))",
           expect=None),
    Mutant('plain-mode-always', 'loki/batch/configure.py', "        return tuple(key for key in keys if key in item_names)\n\n    def create_item_config",
           "        return tuple(key for key in keys if key in item_names or not item_names)\n\n    def create_item_config",
           expect=('R6', 'plain-selection')),
    Mutant('expand-guard-dropped', SG,
           "            if item.expand:\n                children = self._add_children(item, item_factory, config)\n                if children:\n                    queue.extend(children)",
           "            children = self._add_children(item, item_factory, config)\n            if children:\n                queue.extend(children)",
           expect=('R1', 'expand-guard'), quick=True),
    Mutant('block-guard-dropped', SG,
           "if not (dependency in dependencies or SchedulerConfig.match_item_keys(dependency.name, item.block)):",
           "if not (dependency in dependencies):", expect=('R1', 'block-guard')),
    Mutant('ignore-not-inherited', SG, "                    item.is_ignored or\n                    bool(", "                    bool(",
           expect=('R1', 'ignore-propagation')),
    Mutant('disable-filter-dropped', IT,
           "        if self.disable:\n            items = tuple(\n                item for item in items\n                if not SchedulerConfig.match_item_keys(item.name, self.disable)\n            )\n",
           "", expect=('R1', 'disable-filter')),
    Mutant('children-not-queued', SG, "                if children:\n                    queue.extend(children)\n", "", expect=('R1', '_populate:queue')),
    Mutant('outer-import-wins', IT, "        imports += getattr(scope, 'imports', ())\n", "        imports = getattr(scope, 'imports', ()) + imports\n",
           expect=('R4', 'precedence')),
    Mutant('neutral-outer-first-forward', IT, "        imports += getattr(scope, 'imports', ())\n    return CaseInsensitiveDict(\n        (s.name, imprt)\n        for imprt in reversed(imports)",
           "        imports = getattr(scope, 'imports', ()) + imports\n    return CaseInsensitiveDict(\n        (s.name, imprt)\n        for imprt in imports", expect=None),
    Mutant('ignored-without-parents', FA, "            name, keys, use_pattern_matching=True, match_item_parents=True", "            name, keys, use_pattern_matching=True",
           count=2, expect=('R5', '_is_ignored')),
    Mutant('repair-path-key', FA, "        item_name = str(path).lower()\n", "        item_name = str(path)\n", expect=None),
    Mutant('discover-one-suffix', SC, "for path in self.paths for ext in self.source_suffixes", "for path in self.paths for ext in self.source_suffixes[:1]",
           expect=('R3', '_discover:glob')),
]
