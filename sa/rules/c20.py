"""
C20  Recorded source locations match the original text (span / text agreement only).

"The recorded line span and text correspond to the text at those lines" has one
clause that is visible in the code: wherever a frontend builds a ``Source`` from
the original text, the *same* span must select the text and be recorded.
 R1  span / slice agreement at every construction site of the fparser and OMNI
     frontends: in ``Source(lines=L, string=S)`` with ``S`` cut out of
     ``self.raw_source`` (the list of original lines), the slice is
     ``[L[0] - 1 : L[1]]`` (1-based inclusive span -> 0-based half-open slice)
     and, for a single line, the index is ``L[0] - 1`` -- same variables, same
     off-by-one conversion at every site (sibling agreement).
 R2  the line table is the unmodified original: ``self.raw_source`` is
     ``<constructor argument>.splitlines(keepends=True)`` with nothing that could
     shift line numbers (strip / lstrip / replace / slicing) applied before.
 R3  empty sections get an empty text: a ``Source`` with a literal ``string=''``
     records a degenerate span ``(n, n)``.
Not decided: that the spans delivered by the parsers (``item.span``, OMNI
``lineno``) are right; the span arithmetic of the regex frontend
(``loki/frontend/source.py``: string offsets, line continuation merging);
behaviour after transformations.
"""
import ast

from sa import exprs as X
from sa.model import AnalysisError
from sa.mutate import Mutant

PROP = 'C20'

META = dict(
    technique='def-use agreement at every Source(...) construction of the fparser / OMNI frontends: the expressions that index the '
              'table of original lines vs the span recorded next to the text (sibling comparison over all sites); provenance of the '
              'line table',
    level='Decides one necessary condition: at each of the construction sites the recorded text is the slice of the original lines '
          'delimited by the recorded span (1-based inclusive -> 0-based half-open), and the line table is the unmodified original. '
          'Does NOT decide the correctness of the spans delivered by the parsers nor the regex frontend\'s offset arithmetic.',
    note='Claimed for the span/text agreement clause in loki/frontend/fparser.py and loki/frontend/omni.py.',
    ref='DESIGN.md section 3, C20',
)

FILES = [('loki/frontend/fparser.py', 'FParser2IR'), ('loki/frontend/omni.py', 'OMNI2IR')]
TABLE = 'self.raw_source'


def _resolve(fn, e):
    """follow a local bound exactly once in the function"""
    if isinstance(e, ast.Name):
        defs = [a.value for a in ast.walk(fn) if isinstance(a, ast.Assign) and any(isinstance(t, ast.Name) and t.id == e.id for t in a.targets)]
        if len(defs) == 1:
            return defs[0]
    return e


def _span_parts(fn, L):
    """(first, last) source texts of the recorded span: for a tuple literal its elements, for a name N bound to a tuple
    either its elements or ``N[0]`` / ``N[1]``"""
    out = []
    if isinstance(L, ast.Tuple) and len(L.elts) == 2:
        out.append((ast.unparse(L.elts[0]), ast.unparse(L.elts[1])))
    if isinstance(L, ast.Name):
        out.append((f'{L.id}[0]', f'{L.id}[1]'))
        for a in ast.walk(fn):
            if isinstance(a, ast.Assign) and any(isinstance(t, ast.Name) and t.id == L.id for t in a.targets) \
                    and isinstance(a.value, ast.Tuple) and len(a.value.elts) == 2:
                out.append((ast.unparse(a.value.elts[0]), ast.unparse(a.value.elts[1])))
    return out


def run(ctx):
    m = ctx.model
    ctx.rule('R1', 'Source(lines=L, string=S): S is cut out of self.raw_source by [L[0] - 1 : L[1]] (or index L[0] - 1 for a one-line span)')
    ctx.rule('R2', 'self.raw_source = <constructor argument>.splitlines(keepends=True), nothing applied that shifts line numbers')
    ctx.rule('R3', "Source(..., string='') records a degenerate span (n, n)")
    n1 = n3 = 0
    for rel, cname in FILES:
        C = m.get_class(rel, cname)
        for mname, mem in C.members.items():
            if mem.kind != 'func':
                continue
            fn = mem.node
            for c in ast.walk(fn):
                if not (isinstance(c, ast.Call) and X.call_name_of(c) == 'Source'):
                    continue
                kw = {k.arg: k.value for k in c.keywords}
                L = kw.get('lines', c.args[0] if c.args else None)
                S = kw.get('string', c.args[1] if len(c.args) > 1 else None)
                if L is None or S is None:
                    continue
                where = f'{rel}:{c.lineno}'
                if isinstance(S, ast.Constant) and S.value == '':
                    n3 += 1
                    Lr = _resolve(fn, L)
                    ok = isinstance(Lr, ast.Tuple) and len(Lr.elts) == 2 and ast.unparse(Lr.elts[0]) == ast.unparse(Lr.elts[1])
                    (ctx.judge('R3', f'{cname}.{mname}:empty@{ast.unparse(L)}') if ok else
                     ctx.violation('R3', f'{cname}.{mname}:empty-source-span', where,
                                   f'an empty text is recorded with the span `{ast.unparse(Lr)}`, which is not a single position'))
                    continue
                # all definitions of S (a local may be bound in several branches)
                sdefs = [S] if not isinstance(S, ast.Name) else [a.value for a in ast.walk(fn) if isinstance(a, ast.Assign)
                                                                  and any(isinstance(t, ast.Name) and t.id == S.id for t in a.targets)]
                subs = [s for d in sdefs for s in ast.walk(d) if isinstance(s, ast.Subscript) and ast.unparse(s.value) == TABLE]
                if not subs:
                    continue        # text not taken from the line table (e.g. None)
                parts = _span_parts(fn, L)
                for s in subs:
                    n1 += 1
                    inst = f'{cname}.{mname}:{ast.unparse(L)}'
                    if isinstance(s.slice, ast.Slice):
                        lo = ast.unparse(s.slice.lower).replace(' ', '') if s.slice.lower is not None else None
                        hi = ast.unparse(s.slice.upper).replace(' ', '') if s.slice.upper is not None else None
                        ok = s.slice.step is None and any(lo == f'{a}-1'.replace(' ', '') and hi == b.replace(' ', '') for a, b in parts)
                        want = f'[{parts[0][0]} - 1:{parts[0][1]}]' if parts else '?'
                    else:
                        ix = ast.unparse(s.slice).replace(' ', '')
                        ok = any(ix == f'{a}-1'.replace(' ', '') and a == b for a, b in parts)
                        want = f'[{parts[0][0]} - 1]' if parts else '?'
                    if ok:
                        ctx.judge('R1', inst, facts={'slice': ast.unparse(s), 'span': ast.unparse(L)})
                    else:
                        ctx.violation('R1', f'{cname}.{mname}:span-text-mismatch', where,
                                      f'`Source(lines={ast.unparse(L)}, ...)` records the text `{ast.unparse(s)}`; for the recorded span the '
                                      f'text must be `{TABLE}{want}`: the node reports lines whose text it does not carry',
                                      instance=inst)
        # ---- R2
        init = C.function('__init__')
        tabs = [a for a in ast.walk(init.node) if isinstance(a, ast.Assign) and any(ast.unparse(t) == TABLE for t in a.targets)]
        if len(tabs) != 1:
            raise AnalysisError(f'{cname}.__init__: assignment of {TABLE} not found')
        v = tabs[0].value
        params = [a.arg for a in init.node.args.args]
        ok = isinstance(v, ast.Call) and isinstance(v.func, ast.Attribute) and v.func.attr == 'splitlines' and isinstance(v.func.value, ast.Name) \
            and v.func.value.id in params and any(k.arg == 'keepends' and isinstance(k.value, ast.Constant) and k.value.value is True for k in v.keywords)
        rebound = [a for a in ast.walk(init.node) if isinstance(a, ast.Assign) and isinstance(v, ast.Call) and isinstance(v.func, ast.Attribute)
                   and isinstance(v.func.value, ast.Name) and any(isinstance(t, ast.Name) and t.id == v.func.value.id for t in a.targets)]
        if ok and not rebound:
            ctx.judge('R2', f'{cname}: line table is the original text', facts={'value': ast.unparse(v)})
        else:
            ctx.violation('R2', f'{cname}.__init__:line-table', f'{rel}:{tabs[0].lineno}',
                          f'`{ast.unparse(tabs[0])}` (after {len(rebound)} re-binding(s) of the argument): the table indexed by line number is not '
                          f'the unmodified original text split at line ends, so recorded spans and recorded text drift apart')
    ctx.floor('R1', 'Source constructions cut out of the line table', n1, 6)
    ctx.floor('R3', 'empty Source constructions', n3, 4)


F = 'loki/frontend/fparser.py'
MUTANTS = [
    Mutant('get-source-off-by-one', F, "        string = ''.join(self.raw_source[lines[0] - 1:lines[1]]).strip('\\n')",
           "        string = ''.join(self.raw_source[lines[0]:lines[1]]).strip('\\n')", expect=('R1', 'get_source'), quick=True),
    Mutant('body-span-exclusive-end', F, "body_string = ''.join(self.raw_source[body_lines[0]-1:body_lines[1]]).rstrip('\\n')",
           "body_string = ''.join(self.raw_source[body_lines[0]-1:body_lines[1]-1]).rstrip('\\n')", expect=('R1', 'span-text-mismatch')),
    Mutant('spec-text-from-body-span', F, "                    spec_string = ''.join(self.raw_source[spec_lines[0]-1:spec_lines[1]]).strip('\\n')\n                    spec._update(source=Source(lines=spec_lines, string=spec_string))",
           "                    spec_string = ''.join(self.raw_source[source.lines[0]-1:spec_lines[1]]).strip('\\n')\n                    spec._update(source=Source(lines=spec_lines, string=spec_string))",
           expect=('R1', 'span-text-mismatch')),
    Mutant('line-table-stripped', F, "        self.raw_source = raw_source.splitlines(keepends=True)", "        self.raw_source = raw_source.strip().splitlines(keepends=True)",
           expect=('R2', 'line-table')),
    Mutant('omni-index-one-based', 'loki/frontend/omni.py', "            string = self.raw_source[self.lineno-1]", "            string = self.raw_source[self.lineno]",
           expect=('R1', 'span-text-mismatch')),
    Mutant('neutral-span-unpacked', F, "        lines = (node.item.span[0], end_node.item.span[1])\n        string = ''.join(self.raw_source[lines[0] - 1:lines[1]]).strip('\\n')",
           "        lines = (node.item.span[0], end_node.item.span[1])\n        string = ''.join(self.raw_source[node.item.span[0] - 1:end_node.item.span[1]]).strip('\\n')",
           expect=None),
]
