"""
C20  Recorded source locations match the original text (span / text agreement only).

"The recorded line span and text correspond to the text at those lines" has one
clause that is visible in the code: wherever a frontend builds a ``Source`` from
the original text, the *same* span must select the text and be recorded.
 R1  span / slice agreement at every construction site of the fparser and OMNI
     frontends: in ``Source(lines=L, string=S)`` with ``S`` cut out of
     ``self.raw_source`` (the list of original lines), the slice is
     ``[L[0] - 1 : L[1]]`` (1-based inclusive span -> 0-based half-open slice)
     and, for a single line, the index is ``L[0] - 1`` -- same variables, same
     off-by-one conversion at every site (sibling agreement).
 R2  the line table is the unmodified original: ``self.raw_source`` is
     ``<constructor argument>.splitlines(keepends=True)`` with nothing that could
     shift line numbers (strip / lstrip / replace / slicing) applied before.
 R3  empty sections get an empty text: a ``Source`` with a literal ``string=''``
     records a degenerate span ``(n, n)``.
 R4  the same agreement in the regex frontend's ``FortranReader``, whose line
     table starts at an offset: on every path to a
     ``Source(lines=(A, B), string='\\n'.join(self.source_lines[I:J]))`` the index
     expressions satisfy ``I == A - line_offset - 1`` and ``J == B - line_offset``
     as *linear expressions* over the reader's quantities (locals substituted
     along the path, ``get_line_index`` expanded from its definition) -- a symbolic
     identity, not an evaluation.
 R5  text re-assembled after parsing: the sanitiser's ``reinsert_*`` callbacks
     overwrite ``source.string`` of a (possibly multi-line) statement with the
     re-assembled first line plus the continuation lines; the test that decides
     whether continuation lines are appended must see through blanks after the
     ``&`` (stripped receiver, or a regex group that cannot end in blanks -- decided
     on the regex AST).  Shared with C05 R7.
Not decided: that the spans delivered by the parsers (``item.span``, OMNI
``lineno``, the reader's sanitised spans) are right; string-offset based spans
(``clone_with_span``, line-continuation merging); behaviour after transformations.
"""
import ast

from sa import exprs as X
from sa.model import AnalysisError
from sa.mutate import Mutant

PROP = 'C20'

META = dict(
    technique='def-use agreement at every Source(...) construction of the frontends: the expressions that index the table of '
              'original lines vs the span recorded next to the text, compared as linear normal forms (path enumeration with '
              'substitution of locals for FortranReader; sibling comparison over all sites); provenance of the line table',
    level='Decides one necessary condition: at each of the construction sites the recorded text is the slice of the original lines '
          'delimited by the recorded span (1-based inclusive -> 0-based half-open), and the line table is the unmodified original. '
          'For the regex frontend\'s FortranReader the same agreement is checked as a linear identity on every path. '
          'Does NOT decide the correctness of the spans delivered by the parsers nor string-offset based spans.',
    note='Claimed for the span/text agreement clause in loki/frontend/fparser.py, omni.py and FortranReader (source.py).',
    ref='DESIGN.md section 3, C20',
)

FILES = [('loki/frontend/fparser.py', 'FParser2IR'), ('loki/frontend/omni.py', 'OMNI2IR')]
TABLE = 'self.raw_source'


def _resolve(fn, e):
    """follow a local bound exactly once in the function"""
    if isinstance(e, ast.Name):
        defs = [a.value for a in ast.walk(fn) if isinstance(a, ast.Assign) and any(isinstance(t, ast.Name) and t.id == e.id for t in a.targets)]
        if len(defs) == 1:
            return defs[0]
    return e


def _span_parts(fn, L):
    """(first, last) source texts of the recorded span: for a tuple literal its elements, for a name N bound to a tuple
    either its elements or ``N[0]`` / ``N[1]``"""
    out = []
    if isinstance(L, ast.Tuple) and len(L.elts) == 2:
        out.append((ast.unparse(L.elts[0]), ast.unparse(L.elts[1])))
    if isinstance(L, ast.Name):
        out.append((f'{L.id}[0]', f'{L.id}[1]'))
        for a in ast.walk(fn):
            if isinstance(a, ast.Assign) and any(isinstance(t, ast.Name) and t.id == L.id for t in a.targets) \
                    and isinstance(a.value, ast.Tuple) and len(a.value.elts) == 2:
                out.append((ast.unparse(a.value.elts[0]), ast.unparse(a.value.elts[1])))
    return out


def run(ctx):
    m = ctx.model
    ctx.rule('R1', 'Source(lines=L, string=S): S is cut out of self.raw_source by [L[0] - 1 : L[1]] (or index L[0] - 1 for a one-line span)')
    ctx.rule('R2', 'self.raw_source = <constructor argument>.splitlines(keepends=True), nothing applied that shifts line numbers')
    ctx.rule('R3', "Source(..., string='') records a degenerate span (n, n)")
    n1 = n3 = 0
    for rel, cname in FILES:
        C = m.get_class(rel, cname)
        for mname, mem in C.members.items():
            if mem.kind != 'func':
                continue
            fn = mem.node
            for c in ast.walk(fn):
                if not (isinstance(c, ast.Call) and X.call_name_of(c) == 'Source'):
                    continue
                kw = {k.arg: k.value for k in c.keywords}
                L = kw.get('lines', c.args[0] if c.args else None)
                S = kw.get('string', c.args[1] if len(c.args) > 1 else None)
                if L is None or S is None:
                    continue
                where = f'{rel}:{c.lineno}'
                if isinstance(S, ast.Constant) and S.value == '':
                    n3 += 1
                    Lr = _resolve(fn, L)
                    ok = isinstance(Lr, ast.Tuple) and len(Lr.elts) == 2 and ast.unparse(Lr.elts[0]) == ast.unparse(Lr.elts[1])
                    (ctx.judge('R3', f'{cname}.{mname}:empty@{ast.unparse(L)}') if ok else
                     ctx.violation('R3', f'{cname}.{mname}:empty-source-span', where,
                                   f'an empty text is recorded with the span `{ast.unparse(Lr)}`, which is not a single position'))
                    continue
                # all definitions of S (a local may be bound in several branches)
                sdefs = [S] if not isinstance(S, ast.Name) else [a.value for a in ast.walk(fn) if isinstance(a, ast.Assign)
                                                                  and any(isinstance(t, ast.Name) and t.id == S.id for t in a.targets)]
                subs = [s for d in sdefs for s in ast.walk(d) if isinstance(s, ast.Subscript) and ast.unparse(s.value) == TABLE]
                if not subs:
                    continue        # text not taken from the line table (e.g. None)
                parts = _span_parts(fn, L)
                for s in subs:
                    n1 += 1
                    inst = f'{cname}.{mname}:{ast.unparse(L)}'
                    def lin_eq(x, y, shift):
                        try:
                            a_, b_ = _lin(x, lambda e: None), _lin(ast.parse(y, mode='eval').body, lambda e: None)
                        except (_NotLinear, SyntaxError):
                            return False
                        b_ = dict(b_); b_[1] = b_.get(1, 0) + shift
                        return _same(a_, b_)
                    if isinstance(s.slice, ast.Slice):
                        ok = s.slice.step is None and s.slice.lower is not None and s.slice.upper is not None and any(
                            lin_eq(s.slice.lower, a, -1) and lin_eq(s.slice.upper, b, 0) for a, b in parts)
                        want = f'[{parts[0][0]} - 1:{parts[0][1]}]' if parts else '?'
                    else:
                        ok = any(lin_eq(s.slice, a, -1) and a == b for a, b in parts)
                        want = f'[{parts[0][0]} - 1]' if parts else '?'
                    if ok:
                        ctx.judge('R1', inst, facts={'slice': ast.unparse(s), 'span': ast.unparse(L)})
                    else:
                        ctx.violation('R1', f'{cname}.{mname}:span-text-mismatch', where,
                                      f'`Source(lines={ast.unparse(L)}, ...)` records the text `{ast.unparse(s)}`; for the recorded span the '
                                      f'text must be `{TABLE}{want}`: the node reports lines whose text it does not carry',
                                      instance=inst)
        # ---- R2
        init = C.function('__init__')
        tabs = [a for a in ast.walk(init.node) if isinstance(a, ast.Assign) and any(ast.unparse(t) == TABLE for t in a.targets)]
        if len(tabs) != 1:
            raise AnalysisError(f'{cname}.__init__: assignment of {TABLE} not found')
        v = tabs[0].value
        params = [a.arg for a in init.node.args.args]
        ok = isinstance(v, ast.Call) and isinstance(v.func, ast.Attribute) and v.func.attr == 'splitlines' and isinstance(v.func.value, ast.Name) \
            and v.func.value.id in params and any(k.arg == 'keepends' and isinstance(k.value, ast.Constant) and k.value.value is True for k in v.keywords)
        rebound = [a for a in ast.walk(init.node) if isinstance(a, ast.Assign) and isinstance(v, ast.Call) and isinstance(v.func, ast.Attribute)
                   and isinstance(v.func.value, ast.Name) and any(isinstance(t, ast.Name) and t.id == v.func.value.id for t in a.targets)]
        if ok and not rebound:
            ctx.judge('R2', f'{cname}: line table is the original text', facts={'value': ast.unparse(v)})
        else:
            ctx.violation('R2', f'{cname}.__init__:line-table', f'{rel}:{tabs[0].lineno}',
                          f'`{ast.unparse(tabs[0])}` (after {len(rebound)} re-binding(s) of the argument): the table indexed by line number is not '
                          f'the unmodified original text split at line ends, so recorded spans and recorded text drift apart')
    ctx.floor('R1', 'Source constructions cut out of the line table', n1, 6)
    ctx.floor('R3', 'empty Source constructions', n3, 4)
    run_r4(ctx)
    run_r5(ctx)


from sa.linform import lin_py as _lin, same as _same, NotLinear as _NotLinear   # noqa: E402


def _subst(e, env):
    """replace locals by the expressions they are bound to on the current path; ``t[0]`` of a tuple expression is its element"""
    import copy

    class S(ast.NodeTransformer):
        def visit_Name(self, n):
            if isinstance(n.ctx, ast.Load) and n.id in env:
                return copy.deepcopy(env[n.id])
            return n

        def visit_Subscript(self, n):
            n = self.generic_visit(n)
            if isinstance(n.value, ast.Tuple) and isinstance(n.slice, ast.Constant) and isinstance(n.slice.value, int) \
                    and -len(n.value.elts) <= n.slice.value < len(n.value.elts):
                return n.value.elts[n.slice.value]
            return n
    return S().visit(copy.deepcopy(e))


def _paths(stmts, env, out):
    """enumerate paths (branches forked, conditions ignored) and collect (return statement, environment)"""
    for i, st in enumerate(stmts):
        if isinstance(st, ast.Assign) and len(st.targets) == 1:
            t = st.targets[0]
            v = _subst(st.value, env)
            if isinstance(t, ast.Name):
                env = dict(env); env[t.id] = v
            elif isinstance(t, ast.Tuple):
                env = dict(env)
                for el in t.elts:
                    nm = el.value.id if isinstance(el, ast.Starred) and isinstance(el.value, ast.Name) else (el.id if isinstance(el, ast.Name) else None)
                    if nm:
                        env.pop(nm, None)        # opaque: stays an atom
        elif isinstance(st, ast.If):
            rest = stmts[i + 1:]
            _paths(st.body + rest, dict(env), out)
            _paths(st.orelse + rest, dict(env), out)
            return
        elif isinstance(st, ast.Return):
            out.append((st, env))
            return
        elif isinstance(st, (ast.Expr, ast.Assert, ast.Pass)):
            continue
        else:
            raise AnalysisError(f'statement kind outside the evaluated fragment: {ast.unparse(st)[:50]}')


def run_r5(ctx):
    """text re-assembled by the sanitiser's re-insertion callbacks still covers the recorded span (shared with C05 R7)"""
    from sa.rules import c05
    m = ctx.model
    mod = m.module_by_path('loki/frontend/preprocessing.py')
    ctx.rule('R5', 'reinsert_* callbacks overwrite source.string of a multi-line statement: the test that decides whether the continuation '
                   'lines are appended sees through blanks after the `&`')
    c05.continued_line_tests(ctx, 'R5', m, mod, c05._registry(m, mod))


def run_r4(ctx):
    m = ctx.model
    ctx.rule('R4', "FortranReader: Source(lines=(A, B), string='\\n'.join(self.source_lines[I:J])) with I == A - line_offset - 1 and "
                   'J == B - line_offset as linear expressions, on every path')
    rel = 'loki/frontend/source.py'
    R = m.get_class(rel, 'FortranReader')
    gli = R.function('get_line_index')
    if gli is None:
        raise AnalysisError('FortranReader.get_line_index vanished')
    gret = [r for r in ast.walk(gli.node) if isinstance(r, ast.Return)]
    gpar = gli.node.args.args[1].arg
    OFF = 'self.line_offset'
    TAB = 'self.source_lines'

    def expand(e):
        if isinstance(e, ast.Call) and ast.unparse(e.func) == 'self.get_line_index' and len(e.args) == 1 and len(gret) == 1:
            return _subst(gret[0].value, {gpar: e.args[0]})
        return None
    n = 0
    for mname in ('to_source', 'source_from_head', 'source_from_tail', 'source_from_sanitized_span', 'source_from_current_line'):
        f = R.function(mname)
        if f is None:
            raise AnalysisError(f'FortranReader.{mname} vanished')
        out = []
        _paths(X_body(f.node), {}, out)
        for ret, env in out:
            if ret.value is None:
                continue
            v = _subst(ret.value, env)
            if not (isinstance(v, ast.Call) and ast.unparse(v.func) == 'Source'):
                continue
            kw = {k.arg: k.value for k in v.keywords}
            L = kw.get('lines', v.args[0] if v.args else None)
            S = kw.get('string', v.args[1] if len(v.args) > 1 else None)
            if L is None or S is None or (isinstance(S, ast.Constant) and S.value == ''):
                continue
            subs = [x for x in ast.walk(S) if isinstance(x, ast.Subscript) and ast.unparse(x.value) == TAB]
            whole = [x for x in ast.walk(S) if isinstance(x, ast.Attribute) and ast.unparse(x) == TAB] if not subs else []
            if isinstance(L, ast.Tuple) and len(L.elts) == 2:
                A, B = L.elts
            else:
                A = ast.Subscript(value=L, slice=ast.Constant(value=0), ctx=ast.Load())
                B = ast.Subscript(value=L, slice=ast.Constant(value=1), ctx=ast.Load())
            if subs:
                sl = subs[0].slice
                if not isinstance(sl, ast.Slice) or sl.step is not None:
                    raise AnalysisError(f'FortranReader.{mname}: `{ast.unparse(subs[0])}` is not a plain slice')
                I = sl.lower if sl.lower is not None else ast.Constant(value=0)
                J = sl.upper if sl.upper is not None else ast.parse(f'len({TAB})', mode='eval').body
            elif whole:
                I, J = ast.Constant(value=0), ast.parse(f'len({TAB})', mode='eval').body
            else:
                continue
            n += 1
            try:
                li, lj, la, lb = (_lin(x, expand) for x in (I, J, A, B))
            except _NotLinear as u:
                raise AnalysisError(f'FortranReader.{mname}: `{u}` is outside the linear fragment')
            off = {OFF: 1}
            want_i = dict(la); want_i[OFF] = want_i.get(OFF, 0) - 1; want_i[1] = want_i.get(1, 0) - 1
            want_j = dict(lb); want_j[OFF] = want_j.get(OFF, 0) - 1
            inst = f'FortranReader.{mname}:line {ret.lineno}'
            bad = []
            if not _same(li, want_i):
                bad.append(f'first index `{ast.unparse(I)}` != `({ast.unparse(A)}) - line_offset - 1`')
            if not _same(lj, want_j):
                bad.append(f'end index `{ast.unparse(J)}` != `({ast.unparse(B)}) - line_offset`')
            if bad:
                ctx.violation('R4', f'FortranReader.{mname}:span-text-mismatch', f'{rel}:{ret.lineno}',
                              f'on a path to `{ast.unparse(ret)[:60]}` the recorded span and the slice of the line table disagree: ' + '; '.join(bad) +
                              ': the node reports lines whose text it does not carry', instance=inst)
            else:
                ctx.judge('R4', inst, facts={'span': f'({ast.unparse(A)}, {ast.unparse(B)})', 'slice': f'[{ast.unparse(I)}:{ast.unparse(J)}]'})
    ctx.floor('R4', 'FortranReader Source constructions on all paths', n, 6)


def X_body(fnode):
    from sa import exprs as X
    return X.body_nodoc(fnode)


F = 'loki/frontend/fparser.py'
MUTANTS = [
    Mutant('continuation-test-on-raw-group', 'loki/frontend/preprocessing.py', "                if match['args2'].rstrip().endswith('&'):",
           "                if match['args2'].endswith('&'):", expect=('R5', 'continuation-test-sees-blanks')),
    Mutant('tail-starts-inside-last-statement', 'loki/frontend/source.py', "        start = self.sanitized_lines[-1].span[1] + 1\n        string = '\\n'.join(self.source_lines[self.get_line_index(start):])",
           "        start = self.sanitized_lines[-1].span[0] + 1\n        string = '\\n'.join(self.source_lines[self.get_line_index(start):])",
           expect=('R4', 'source_from_tail')),
    Mutant('head-one-line-short', 'loki/frontend/source.py', "        lines = (self.line_offset + 1, self.sanitized_lines[0].span[0] - 1)",
           "        lines = (self.line_offset + 1, self.sanitized_lines[0].span[0])", expect=('R4', 'source_from_head')),
    Mutant('neutral-tail-cached-last-line', 'loki/frontend/source.py', "        start = self.sanitized_lines[-1].span[1] + 1\n",
           "        last_line = self.sanitized_lines[-1]\n        start = last_line.span[1] + 1\n", expect=None),
    Mutant('get-source-off-by-one', F, "        string = ''.join(self.raw_source[lines[0] - 1:lines[1]]).strip('\\n')",
           "        string = ''.join(self.raw_source[lines[0]:lines[1]]).strip('\\n')", expect=('R1', 'get_source'), quick=True),
    Mutant('body-span-exclusive-end', F, "body_string = ''.join(self.raw_source[body_lines[0]-1:body_lines[1]]).rstrip('\\n')",
           "body_string = ''.join(self.raw_source[body_lines[0]-1:body_lines[1]-1]).rstrip('\\n')", expect=('R1', 'span-text-mismatch')),
    Mutant('spec-text-from-body-span', F, "                    spec_string = ''.join(self.raw_source[spec_lines[0]-1:spec_lines[1]]).strip('\\n')\n                    spec._update(source=Source(lines=spec_lines, string=spec_string))",
           "                    spec_string = ''.join(self.raw_source[source.lines[0]-1:spec_lines[1]]).strip('\\n')\n                    spec._update(source=Source(lines=spec_lines, string=spec_string))",
           expect=('R1', 'span-text-mismatch')),
    Mutant('line-table-stripped', F, "        self.raw_source = raw_source.splitlines(keepends=True)", "        self.raw_source = raw_source.strip().splitlines(keepends=True)",
           expect=('R2', 'line-table')),
    Mutant('omni-index-one-based', 'loki/frontend/omni.py', "            string = self.raw_source[self.lineno-1]", "            string = self.raw_source[self.lineno]",
           expect=('R1', 'span-text-mismatch')),
    Mutant('neutral-slice-spelled-differently', F, "        string = ''.join(self.raw_source[lines[0] - 1:lines[1]]).strip('\\n')",
           "        string = ''.join(self.raw_source[-1 + lines[0]:lines[1] + 0]).strip('\\n')", expect=None),
    Mutant('neutral-span-unpacked', F, "        lines = (node.item.span[0], end_node.item.span[1])\n        string = ''.join(self.raw_source[lines[0] - 1:lines[1]]).strip('\\n')",
           "        lines = (node.item.span[0], end_node.item.span[1])\n        string = ''.join(self.raw_source[node.item.span[0] - 1:end_node.item.span[1]]).strip('\\n')",
           expect=None),
]
