"""
C27  Dependency queries report every actual loop-carried or read-after-write value.

 R1  kill only on must-write: ``FindReads`` removes a variable from its candidate
     set when it sees a write (``clear_candidates_on_write``).  That is only sound
     for nodes whose execution is unconditional.  A node class whose dataflow
     ``defines_symbols`` summarises *conditional* or *repeated* bodies (SELECT
     CASE, SELECT TYPE, WHERE, DO, DO WHILE) must be handled like
     ``visit_Conditional``: save the candidate set, visit, and union afterwards
     -- not by the leaf handler that clears candidates with the node's summary.
 R2  ``loop_carried_dependencies`` is ``uses & defines`` of the loop node (so it
     inherits the over-approximation of C26) and ``read_after_write_vars`` wires
     writes-before / reads-from the inspection node.
 R3  reads are registered before writes are cleared in the leaf handler (a
     statement ``x = x + 1`` after the inspection point reads x).
 R4  the loop query is ``uses & defines`` of the attached dataflow sets, so it
     inherits C26's rule that mutually exclusive alternatives are analysed
     independently (a write in the IF branch must not hide a read in the ELSE
     branch from ``uses_symbols``); re-evaluated here on the attacher.
 R5  branch merge of ``FindReads.visit_Conditional`` by symbolic execution of the
     handler over the abstract states of ``self.candidate_set`` (C0 = set on
     entry, K(branch, S) = S after the kills of a branch): every branch must be
     entered with exactly C0 and the handler must leave the union of the
     post-states of all branches.
Not decided: array sections, aliasing.
"""
import ast

from sa import dispatch as D, exprs as X
from sa.model import AnalysisError
from sa.mutate import Mutant

PROP = 'C27'

META = dict(
    technique='static dispatch of FindReads over all IR node classes combined with an effect classification of the handlers '
              '(clears candidates with a summary vs saves/unions the candidate set); shape checks of the two query functions',
    level='Decides the structural soundness condition of the read-after-write query: candidate kills happen only for '
          'unconditionally executed writes; conditional/iterated constructs must merge candidate sets. Also the wiring of both '
          'queries. Does NOT decide array-section or alias effects.',
    note='Which node classes contain conditional or repeated bodies is read from their body-like traversable fields.',
    ref='DESIGN.md section 3, C27',
)

FILE = 'loki/analyse/dataflow_analysis.py'
# node classes whose bodies execute conditionally / repeatedly (may-write): name -> why
MAY = {'Conditional': 'branches', 'MultiConditional': 'SELECT CASE branches', 'TypeConditional': 'SELECT TYPE branches',
       'MaskedStatement': 'WHERE/ELSEWHERE bodies apply to a subset of elements', 'Loop': 'zero-trip loops',
       'WhileLoop': 'zero-trip loops', 'Forall': 'masked / zero-trip'}


def run(ctx):
    m = ctx.model
    ctx.rule('R1', 'for node classes with conditional/repeated bodies the FindReads handler must preserve the candidate set '
                   '(copy before, union after) and must not clear candidates with the node\'s summarised defines')
    ctx.rule('R2', 'loop_carried_dependencies == loop.uses_symbols & loop.defines_symbols; read_after_write_vars: FindWrites(stop=node, '
                   'active=True) then FindReads(start=node, candidate_set=writes, clear_candidates_on_write=True)')
    ctx.rule('R3', 'FindReads.visit_LeafNode registers reads before it clears candidates')
    FR = m.get_class(FILE, 'FindReads')
    handlers = D.visitor_handlers(m, FR)
    nodes = {c.name: c for c in D.ir_node_classes(m, concrete_only=True)}
    missing = [n for n in MAY if n not in nodes]
    if missing:
        raise AnalysisError(f'node classes vanished: {missing}')
    memo = {}
    for name, why in MAY.items():
        f, key = D.visitor_dispatch(m, FR, nodes[name], handlers)
        if f is None:
            raise AnalysisError(f'FindReads has no handler for {name}')
        src = ast.unparse(f.node)
        clears = X.has(src, '_register_writes(o.defines_symbols)')
        saves = X.has(src, 'candidate_set.copy()') and (X.has(src, 'candidate_set |=') or X.has(src, '|= candidate_set'))
        visits = X.has(src, 'self.visit(')
        alts = [c for c in ast.walk(f.node) if isinstance(c, ast.Call) and X.dotted_attr(c.func) == 'self._visit_alternatives']
        facts = {'handler': f.qualname, 'key': key, 'clears_candidates_with_node_summary': clears, 'saves_and_unions_candidates': saves,
                 'descends': visits, 'alternatives': [ast.unparse(c.args[0]) for c in alts if c.args]}
        inst = f'FindReads x {name}'
        if clears:
            ctx.violation('R1', f'FindReads:{name}:summary-kill', f.where,
                          f'{name} ({why}) is handled by {f.qualname}, which clears candidates with the node\'s summarised '
                          f'defines_symbols: a variable written only on some path / iteration is dropped and a later read of the '
                          f'earlier value is not reported', facts=facts, instance=inst)
        elif alts:
            # the alternatives handed to the merge helper must contain a way around the bodies: the else branch, or an empty alternative
            arg = alts[0].args[0] if alts[0].args else None
            elts = [ast.unparse(e) for e in arg.elts] if isinstance(arg, ast.Tuple) else []
            skip = '()' in elts or any(e.endswith('.else_body') for e in elts)
            if len(alts) == 1 and skip and FR.function('_visit_alternatives') is not None:
                ctx.judge('R1', inst, facts=facts)
            else:
                ctx.violation('R1', f'FindReads:{name}:no-skip-alternative', f.where,
                              f'{name} ({why}) hands {elts} to the merge helper without an alternative for "no body executed" (else branch '
                              f'or empty tuple): a write in the body kills the candidate although the body may not run', facts=facts,
                              instance=inst)
        elif visits and saves:
            ctx.judge('R1', inst, facts=facts)
        elif visits:
            ctx.violation('R1', f'FindReads:{name}:no-merge', f.where,
                          f'{name} ({why}) is handled by {f.qualname}, which descends into the body with the live candidate set and '
                          f'never restores/unions it: writes inside a body that may not execute kill the candidate', facts=facts,
                          instance=inst)
        else:
            ctx.violation('R1', f'FindReads:{name}:body-not-analysed', f.where,
                          f'{name} ({why}) is handled by {f.qualname}, which neither descends into the bodies nor uses the node summary: '
                          f'reads inside the construct are not reported', facts=facts, instance=inst)
    # ---- R2
    lcd = m.get_function(FILE, 'loop_carried_dependencies')
    rets = [ast.unparse(r.value) for r in ast.walk(lcd.node) if isinstance(r, ast.Return)]
    ok = rets and set(rets[0].replace(' ', '').split('&')) == {'loop.uses_symbols', 'loop.defines_symbols'}
    (ctx.judge('R2', 'loop_carried_dependencies', facts={'returns': rets}) if ok else
     ctx.violation('R2', 'loop_carried_dependencies', lcd.where, f'returns {rets}, expected loop.uses_symbols & loop.defines_symbols'))
    raw = m.get_function(FILE, 'read_after_write_vars')
    src = ast.unparse(raw.node)
    ipar, npar = [a.arg for a in raw.node.args.args][:2]
    wv = (X.names_assigned_from(raw.node, 'FindWrites(') or [None])[0]
    rv = (X.names_assigned_from(raw.node, 'FindReads(') or [None])[0]
    calls = {X.call_name_of(c): c for c in ast.walk(raw.node) if isinstance(c, ast.Call) and X.call_name_of(c) in ('FindWrites', 'FindReads')}

    def kw(c, name):
        return next((ast.unparse(k.value) for k in c.keywords if k.arg == name), None) if c is not None else None
    fw_, fr_ = calls.get('FindWrites'), calls.get('FindReads')
    checks = {'writes before the inspection node': fw_ is not None and kw(fw_, 'stop') == npar and kw(fw_, 'active') == 'True',
              'reads from the inspection node on': fr_ is not None and kw(fr_, 'start') == npar and wv is not None
              and kw(fr_, 'candidate_set') == f'{wv}.writes' and kw(fr_, 'clear_candidates_on_write') == 'True',
              'returns the reads': rv is not None and any(isinstance(r, ast.Return) and ast.unparse(r.value) == f'{rv}.reads'
                                                          for r in ast.walk(raw.node)),
              'both visitors traverse the same IR': src.count(f'.visit({ipar})') == 2}
    for k, v in checks.items():
        (ctx.judge('R2', f'read_after_write_vars:{k}') if v else
         ctx.violation('R2', f'read_after_write_vars:{k}', raw.where, f'wiring lost: {k}'))
    FW = m.get_class(FILE, 'FindWrites')
    for V in (FR, FW):
        v = V.function('visit')
        s = ast.unparse(v.node)
        ok = 'self.active = self.active and o not in self.stop or o in self.start' in s.replace('(', '').replace(')', '')
        (ctx.judge('R2', f'{V.name}.visit activation') if ok else
         ctx.violation('R2', f'{V.name}.visit', v.where, 'activation rule (active and not stop) or start altered'))
    # ---- R4
    from sa.rules.c26 import check_alternatives
    check_alternatives(ctx, m.get_class(FILE, 'DataflowAnalysisAttacher'), 'R4')
    # ---- R5
    ctx.rule('R5', 'FindReads.visit_Conditional and FindReads._visit_alternatives: each alternative is visited with self.candidate_set == C0 '
                   'and the function exits with the union of the post-states (symbolic execution of the body)')

    def symexec(fn, loop_items=None):
        """abstract states: None | frozenset of atoms; atoms 'C0' or ('K', branch, pre-state)"""
        C0 = frozenset({'C0'})
        state = {'self.candidate_set': C0}
        visits = []
        qn = fn.qualname

        def val(e):
            if isinstance(e, ast.Constant) and e.value is None:
                return None
            if isinstance(e, ast.IfExp):
                return val(e.body) if test(e.test) else val(e.orelse)
            if isinstance(e, ast.Call) and isinstance(e.func, ast.Attribute) and e.func.attr == 'copy' and not e.args:
                return val(e.func.value)
            if isinstance(e, ast.Call) and X.call_name_of(e) in ('set', 'OrderedSet', 'frozenset') and len(e.args) == 1:
                return val(e.args[0])
            if isinstance(e, ast.BinOp) and isinstance(e.op, ast.BitOr):
                return val(e.left) | val(e.right)
            k = ast.unparse(e)
            if k in state:
                return state[k]
            raise AnalysisError(f'{qn}: cannot evaluate `{k}` symbolically')

        def test(t):
            if isinstance(t, ast.Compare) and len(t.ops) == 1 and isinstance(t.comparators[0], ast.Constant) and t.comparators[0].value is None:
                v = val(t.left)
                return (v is None) if isinstance(t.ops[0], ast.Is) else (v is not None)
            raise AnalysisError(f'{qn}: unrecognised guard `{ast.unparse(t)}`')

        def run_stmts(stmts):
            for st in stmts:
                if isinstance(st, ast.Expr) and isinstance(st.value, ast.Constant):
                    continue
                if isinstance(st, ast.If):
                    run_stmts(st.body if test(st.test) else st.orelse)
                    continue
                if isinstance(st, ast.For) and loop_items is not None and isinstance(st.target, ast.Name):
                    for it in loop_items:
                        state[st.target.id] = ('BODY', it)
                        run_stmts(st.body)
                    continue
                if isinstance(st, ast.Expr) and isinstance(st.value, ast.Call):
                    d = X.dotted_attr(st.value.func) or ''
                    if d == 'self.visit' and st.value.args:
                        a = st.value.args[0]
                        br = state[a.id][1] if isinstance(a, ast.Name) and isinstance(state.get(a.id), tuple) else ast.unparse(a)
                        pre = state['self.candidate_set']
                        visits.append((br, pre, st.lineno))
                        state['self.candidate_set'] = None if pre is None else frozenset({('K', br, pre)})
                        continue
                    if d in ('self._register_reads',):
                        continue
                    raise AnalysisError(f'{qn}: unrecognised call `{ast.unparse(st.value)[:60]}`')
                if isinstance(st, ast.Assign) and len(st.targets) == 1:
                    tg = st.targets[0]
                    if isinstance(tg, ast.Tuple) and isinstance(st.value, ast.Tuple) and len(tg.elts) == len(st.value.elts):
                        vals = [val(v) for v in st.value.elts]
                        for t_, v_ in zip(tg.elts, vals):
                            state[ast.unparse(t_)] = v_
                        continue
                    state[ast.unparse(tg)] = val(st.value)
                    continue
                if isinstance(st, ast.AugAssign) and isinstance(st.op, ast.BitOr):
                    state[ast.unparse(st.target)] = val(st.target) | val(st.value)
                    continue
                raise AnalysisError(f'{qn}: unrecognised statement `{ast.unparse(st)[:60]}`')
        run_stmts(X.body_nodoc(fn.node))
        return C0, visits, state['self.candidate_set']

    def judge_merge(fn, loop_items=None, floor=2):
        C0, visits, final = symexec(fn, loop_items)
        ctx.floor('R5', f'alternative visits in {fn.qualname}', len(visits), floor)
        want = frozenset()
        for br, pre, line in visits:
            want |= frozenset({('K', br, C0)})
            inst = f'{fn.qualname}:enter:{br}'
            if pre == C0:
                ctx.judge('R5', inst)
            else:
                ctx.violation('R5', inst, f'{fn.module.relpath}:{line}',
                              f'the alternative `{br}` is visited with the candidate set left behind by a sibling alternative (state '
                              f'{sorted(map(str, pre or []))}), not with the set on entry: a variable overwritten in one branch is no longer a '
                              f'candidate while the other branch is scanned, so its read of the earlier value is not reported')
        if final == want:
            ctx.judge('R5', f'{fn.qualname}:exit', facts={'final': sorted(map(str, final))})
        else:
            ctx.violation('R5', f'{fn.qualname}:exit', fn.where,
                          f'the function leaves candidate set {sorted(map(str, final or []))}, expected the union of the post-states of all '
                          f'alternatives {sorted(map(str, want))}: candidates killed on one path only are lost for the code after the construct')
    vc = FR.function('visit_Conditional')
    if vc is None:
        raise AnalysisError('FindReads.visit_Conditional vanished')
    if '_visit_alternatives' not in ast.unparse(vc.node):
        judge_merge(vc)
    va = FR.function('_visit_alternatives')
    if va is not None:
        judge_merge(va, loop_items=['alt1', 'alt2'])
    # ---- R3
    lf = FR.function('visit_LeafNode')
    calls = [(c.lineno, X.dotted_attr(c.func)) for c in ast.walk(lf.node) if isinstance(c, ast.Call)
             and (X.dotted_attr(c.func) or '') in ('self._register_reads', 'self._register_writes')]
    order = [n for _, n in sorted(calls)]
    (ctx.judge('R3', 'reads before writes', facts={'order': order}) if order == ['self._register_reads', 'self._register_writes'] else
     ctx.violation('R3', 'FindReads.visit_LeafNode:order', lf.where, f'call order {order}: a statement reading and writing x loses the read'))
    rr = FR.function('_register_reads')
    ok = 'self.reads |= read_symbols & self.candidate_set' in ast.unparse(rr.node)
    (ctx.judge('R3', '_register_reads intersects with candidates') if ok else
     ctx.violation('R3', 'FindReads._register_reads', rr.where, 'reads are not intersected with the candidate set'))


MUTANTS = [
    Mutant('loop-body-always-runs', FILE, "        # The loop body may not be executed at all\n        self._visit_alternatives((o.body, ()), **kwargs)\n        if active:",
           "        self._visit_alternatives((o.body,), **kwargs)\n        if active:", expect=('R1', 'FindReads:Loop:no-skip-alternative')),
    Mutant('where-covers-all-elements', FILE, "        self._visit_alternatives((*o.bodies, o.default, ()), **kwargs)", "        self._visit_alternatives((*o.bodies, o.default), **kwargs)",
           expect=('R1', 'FindReads:MaskedStatement:no-skip-alternative')),
    Mutant('alternatives-share-state', FILE, "            self.candidate_set = original.copy() if original is not None else None\n            self.visit(body, **kwargs)",
           "            self.visit(body, **kwargs)", expect=('R5', '_visit_alternatives:enter:alt2')),
    Mutant('select-case-back-to-leaf', FILE, "    def visit_MultiConditional(self, o, **kwargs):\n        self._register_reads(self._symbols_from_expr((o.expr, o.values)))\n        self._visit_alternatives((*o.bodies, o.else_body), **kwargs)\n\n    visit_TypeConditional = visit_MultiConditional\n\n", "",
           expect=('R1', 'FindReads:MultiConditional')),
    Mutant('else-visited-with-if-state', FILE, "        self.candidate_set, candidate_set = candidate_set, self.candidate_set\n        self.visit(o.else_body, **kwargs)\n",
           "        self.visit(o.else_body, **kwargs)\n", expect=('R5', 'enter:o.else_body')),
    Mutant('merge-dropped', FILE, "        if self.candidate_set is not None:\n            self.candidate_set |= candidate_set\n\n    def _visit_alternatives", "\n    def _visit_alternatives",
           expect=('R5', 'visit_Conditional:exit')),
    Mutant('neutral-two-step-swap', FILE, "        self.candidate_set, candidate_set = candidate_set, self.candidate_set\n",
           "        after_body = self.candidate_set\n        self.candidate_set = candidate_set\n        candidate_set = after_body\n", expect=None),
    Mutant('attacher-else-sees-if-defines', FILE, "        else_body, else_defines, uses = self._visit_body(o.else_body, live=live, uses=uses, **kwargs)\n        o._update(body=body, else_body=else_body)\n        return self.visit_Node(o, live_symbols=live, defines_symbols=defines|else_defines",
           "        else_body, else_defines, uses = self._visit_body(o.else_body, live=live, uses=uses, defines=defines, **kwargs)\n        o._update(body=body, else_body=else_body)\n        return self.visit_Node(o, live_symbols=live, defines_symbols=defines|else_defines",
           expect=('R4', 'visit_Conditional')),
    Mutant('conditional-as-leaf', FILE,
           "        candidate_set = self.candidate_set.copy() if self.candidate_set is not None else None\n        self.visit(o.body, **kwargs)\n        self.candidate_set, candidate_set = candidate_set, self.candidate_set\n        self.visit(o.else_body, **kwargs)\n        if self.candidate_set is not None:\n            self.candidate_set |= candidate_set\n",
           "        self.visit(o.body, **kwargs)\n        self.visit(o.else_body, **kwargs)\n", expect=('R1', 'Conditional'), quick=True),
    Mutant('writes-before-reads', FILE,
           "        self._register_reads(o.uses_symbols)\n        self._register_writes(o.defines_symbols)\n",
           "        self._register_writes(o.defines_symbols)\n        self._register_reads(o.uses_symbols)\n", expect=('R3', 'order')),
    Mutant('lcd-uses-only', FILE, "    return loop.uses_symbols & loop.defines_symbols", "    return loop.uses_symbols", expect=('R2', 'loop_carried_dependencies')),
    Mutant('raw-start-stop-swapped', FILE, "write_visitor = FindWrites(stop=inspection_node, active=True)", "write_visitor = FindWrites(start=inspection_node)",
           expect=('R2', 'writes before')),
]
