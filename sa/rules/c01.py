"""
C01  Parsing and regenerating Fortran preserves program behaviour.

Clause decided: "nothing the source states is lost on the way through the IR".
 R1  backend totality: every IR node class the fparser frontend constructs is
     printed by a dedicated ``FortranCodegen`` handler -- not by the fallback
     ``visit_Node`` that emits ``! <repr>`` and thereby deletes the statement.
 R2  backend field coverage: for each such class every dataclass field the
     frontend sets (keyword/positional at a construction site) is read by the
     selected backend handler or a helper it calls with the node.
 R3  parse-tree consumption: a frontend handler ``visit_<K>`` whose fparser
     grammar class K carries operands (non-empty ``use_names``) must read its
     parse-tree argument; a handler building the IR node from ``**kwargs`` alone
     drops the operands (``CYCLE outer`` -> ``CYCLE``).
Not decided: that a consumed operand is rendered correctly (C06 covers
expressions), run-time equality.
"""
import ast

from sa import dispatch as D, exprs as X
from sa.model import AnalysisError, NOFOLD
from sa.mutate import Mutant

PROP = 'C01'

META = dict(
    technique='writer/reader agreement over class tables: IR constructor call sites in the fparser frontend vs static dispatch '
              'and field reads of the Fortran backend; parse-tree-argument usage of each frontend handler vs the operand '
              'declaration (use_names) of the fparser grammar class',
    level='Decides three structural necessary conditions of "nothing is lost": every constructed node class has a real backend '
          'handler; every field the frontend fills is read by that handler; every frontend handler for a grammar class with '
          'operands looks at the parse tree. Does NOT decide correct rendering or behavioural equality.',
    note='Grammar operands are read from fparser/two/Fortran2003.py (+Fortran2008) source as installed in /venv.',
    ref='DESIGN.md section 3, C01',
)

FE = 'loki/frontend/fparser.py'
BE = 'loki/backend/fgen.py'
# fields consumed generically (labels and source by visit_tuple / conservative backend), CUDA-only fields printed by cufgen
R2_EXEMPT = {
    ('*', 'source'): 'consumed by the conservative backend', ('*', 'label'): 'applied by FortranCodegen.visit_tuple',
    ('CallStatement', 'chevron'): 'CUDA Fortran launch configuration, printed by cufgen',
    ('CallStatement', 'not_active'): 'analysis flag, no source text',
    ('*', 'symbol_attrs'): 'symbol table, not source text', ('*', 'parent'): 'scope link, not source text',
    ('TypeDef', 'parent'): 'scope link', ('Associate', 'parent'): 'scope link',
    ('Loop', 'has_end_do'): 'printing hint honoured via style (END DO always emitted)',
    ('WhileLoop', 'has_end_do'): 'printing hint',
    ('Conditional', 'has_elseif'): 'read through kwargs is_elseif by the nested conditional',
    ('StatementFunction', 'return_type'): 'declared separately by its VariableDeclaration',
    ('Interface', 'body'): 'printed via visit of o.body', ('RawSource', 'text'): 'verbatim',
}
R3_EXEMPT = {
    'Return_Stmt': 'alternate return (RETURN expr) is obsolescent and outside the supported subset',
    'Continue_Stmt': 'no operands', 'Contains_Stmt': 'no operands',
}


def _grammar_use_names(m):
    """class name -> use_names list, merged over Fortran2003 and Fortran2008 (2008 overrides)."""
    out = {}
    for modname in ('fparser.two.Fortran2003', 'fparser.two.Fortran2008'):
        mod = m.module(modname)
        if mod is None:
            if modname.endswith('2003'):
                raise AnalysisError('fparser.two.Fortran2003 not found in site-packages')
            continue
        mods = [mod]
        # Fortran2008 is a package of modules in newer fparser versions
        import os
        if mod.is_pkg:
            pdir = os.path.dirname(mod.path)
            for f in sorted(os.listdir(pdir)):
                if f.endswith('.py') and f != '__init__.py':
                    sub = m.module(f'{modname}.{f[:-3]}')
                    if sub:
                        mods.append(sub)
        for mm in mods:
            for c in mm.classes.values():
                v = c.members.get('use_names')
                if v is not None and v.kind == 'attr':
                    val = m.const(mm, v.node, c)
                    if val is not NOFOLD:
                        out[c.name] = list(val)
    return out


def run(ctx):
    m = ctx.model
    ctx.rule('R1', 'every ir.<Class>(...) constructed in loki/frontend/fparser.py dispatches in FortranCodegen to a handler other '
                   'than the fallback visit_Node')
    ctx.rule('R2', 'every field set at a frontend construction site of class N is read (o.<field>) by the backend handler '
                   'selected for N, or by a helper that handler passes o to')
    ctx.rule('R3', 'frontend handler visit_<K> reads its parse-tree parameter whenever fparser class K declares operands (use_names)')
    fe = m.module_by_path(FE)
    F2I = fe.classes.get('FParser2IR')
    if F2I is None:
        raise AnalysisError('FParser2IR vanished')
    nodes = {c.name: c for c in D.ir_node_classes(m)}
    # construction sites
    built = {}
    for n in ast.walk(F2I.node):
        if isinstance(n, ast.Call) and isinstance(n.func, ast.Attribute) and isinstance(n.func.value, ast.Name) \
                and n.func.value.id == 'ir' and n.func.attr in nodes:
            cls = nodes[n.func.attr]
            fields = list(m.dataclass_fields(cls))
            # positional arguments follow the dataclass field order of the *own* fields (pydantic dataclass __init__)
            pos = [f for f in fields if f not in ('source', 'label')]
            used = set(k.arg for k in n.keywords if k.arg)
            for i, a in enumerate(n.args):
                if i < len(pos):
                    used.add(pos[i])
            built.setdefault(cls.name, set()).update(used)
    ctx.floor('R1', 'IR node classes constructed by the frontend', len(built), 35)
    G = m.get_class(BE, 'FortranCodegen')
    handlers = D.visitor_handlers(m, G)
    for cname in sorted(built):
        cls = nodes[cname]
        f, key = D.visitor_dispatch(m, G, cls, handlers)
        if f is None or (f.name == 'visit_Node'):
            ctx.violation('R1', cname, G.where, f'{cname} is constructed by the frontend but FortranCodegen prints it with '
                          f'{f.qualname if f else None} (`! <repr>` comment): the statement disappears from the output')
            continue
        ctx.judge('R1', cname, facts={'handler': f.qualname})
        # R2: fields read by handler (+ helpers taking o)
        par = X.param_name(f)
        reads = set(X.attr_reads_of(f.node, par))
        seen = {f.fqn}
        work = [f]
        while work:
            cur = work.pop()
            cpar = X.param_name(cur)
            for c in ast.walk(cur.node):
                if isinstance(c, ast.Call) and any(isinstance(a, ast.Name) and a.id == cpar for a in c.args):
                    d = X.dotted_attr(c.func) or ''
                    callee = None
                    if d.startswith('self.'):
                        callee = m.member_function(G, d.split('.', 1)[1])
                    elif d.startswith('super().'):
                        callee = m.member_function(G, d.split('.', 1)[1], after=cur.cls)
                    if callee is not None and callee.fqn not in seen:
                        seen.add(callee.fqn)
                        idx = [i for i, a in enumerate(c.args) if isinstance(a, ast.Name) and a.id == cpar][0]
                        hp = X.param_name(callee, idx + 1)
                        if hp:
                            reads |= set(X.attr_reads_of(callee.node, hp))
                            work.append(callee)
        # properties of the node class that wrap a field (o.variables -> symbols ...)
        extra = set()
        for r in list(reads):
            mem = m.lookup(cls, r)
            if mem is not None and mem.kind == 'func':
                extra |= set(X.attr_reads_of(mem.node, 'self'))
        reads |= extra
        if 'children' in reads or 'args' in reads:
            reads |= set(D.traversable(m, cls))
        for fld in sorted(built[cname]):
            inst = f'{cname}.{fld}'
            ex = R2_EXEMPT.get((cname, fld)) or R2_EXEMPT.get(('*', fld))
            if ex:
                ctx.judge('R2', inst, nontrivial=False, facts={'exempt': ex})
            elif fld in reads:
                ctx.judge('R2', inst, facts={'handler': f.qualname})
            else:
                ctx.violation('R2', inst, f.where, f'the frontend fills {cname}.{fld} but {f.qualname} (and the helpers it hands the '
                              f'node to) never reads it: that part of the statement is not regenerated',
                              facts={'handler': f.qualname, 'reads': sorted(reads)})
    # ---- R3
    use_names = _grammar_use_names(m)
    ctx.floor('R3', 'fparser grammar classes with operand declarations', len(use_names), 250)
    nh = 0
    for name in F2I.members:
        if not name.startswith('visit_') or '@' in name:
            continue
        K = name[len('visit_'):]
        f = m.member_function(F2I, name)
        if f is None or f.cls is None or f.cls.name != 'FParser2IR':
            continue
        nh += 1
        ops = use_names.get(K)
        par = X.param_name(f)
        uses_o = any(isinstance(n, ast.Name) and n.id == par for n in ast.walk(ast.Module(body=f.node.body, type_ignores=[])))
        inst = f'visit_{K}'
        if uses_o or not ops:
            ctx.judge('R3', inst, nontrivial=bool(ops), facts={'handler': f.name, 'operands': ops})
        elif any(isinstance(n, ast.Call) and X.call_name_of(n) == 'warn_or_fail' for n in ast.walk(f.node)) or \
                any(isinstance(n, ast.Raise) for n in ast.walk(f.node)):
            ctx.judge('R3', inst, nontrivial=False, facts={'exempt': 'explicitly reported as unsupported (warn_or_fail / raise)'})
        elif K in R3_EXEMPT:
            ctx.judge('R3', inst, nontrivial=False, facts={'exempt': R3_EXEMPT[K]})
        else:
            ctx.violation('R3', f'FParser2IR.visit_{K}', f.where,
                          f'fparser class {K} carries operands {ops} but the handler {f.name} never looks at the parse tree '
                          f'(`{ast.unparse(f.node.body[-1])}`): the operands are dropped from the IR', facts={'operands': ops})
    ctx.floor('R3', 'frontend handlers', nh, 230)


MUTANTS = [
    Mutant('backend-handler-removed', BE,
           "    def visit_Nullify(self, o, **kwargs):", "    def _unused_visit_Nullify(self, o, **kwargs):", expect=('R1', 'Nullify'), quick=True),
    Mutant('frontend-drops-goto-label', FE, "        label = o.items[0].tostr()\n        return ir.GotoStmt(text=label, **kwargs)",
           "        return ir.GotoStmt(text='', **kwargs)", expect=('R3', 'visit_Goto_Stmt')),
    Mutant('backend-ignores-data-source', BE, "o.data_source", "None", count=2, expect=('R2', 'Allocation.data_source')),
]
