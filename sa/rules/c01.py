"""
C01  Parsing and regenerating Fortran preserves program behaviour.

Clause decided: "nothing the source states is lost on the way through the IR".
 R1  backend totality: every IR node class the fparser frontend constructs is
     printed by a dedicated ``FortranCodegen`` handler -- not by the fallback
     ``visit_Node`` that emits ``! <repr>`` and thereby deletes the statement.
 R2  backend field coverage: for each such class every dataclass field the
     frontend sets (keyword/positional at a construction site) is read by the
     selected backend handler or a helper it calls with the node.
 R3  parse-tree consumption: a frontend handler ``visit_<K>`` whose fparser
     grammar class K carries operands (non-empty ``use_names``) must return a
     value that data-depends on its parse-tree argument (taint through locals);
     a handler building the IR node from ``**kwargs`` alone drops the operands
     (``CYCLE outer`` -> ``CYCLE``).
 R4  parentheses survive the round trip: the frontend materialises a source
     parenthesis as a ``Parenthesised*`` node only for the operator classes
     tested in ``FParser2IR.visit_Parenthesis``; for every other operator class
     (logical operators, comparisons, negation of such) the grouping lives in the
     tree shape alone, so the Fortran printer must re-create the parentheses:
     C06's slot rule is evaluated for ``FCodeMapper`` on exactly those child
     classes (``.not. (p .and. q)`` must not come back as ``.not.p .and. q``).
 R5  default-branch extraction keeps selectors and bodies paired: the block that
     removes the ``CASE DEFAULT`` / ``CLASS DEFAULT`` entry from the parallel
     sequences ``values`` / ``bodies`` is executed abstractly for every position
     p of the default among n = 1..4 alternatives; afterwards ``else_body`` must
     be the p-th body and the remaining (value, body) pairs must be the original
     ones in order (the default need not be the last alternative).
 R6  bodies of multi-branch constructs are printed as bodies: ``visit_all`` visits
     the *elements* of its argument when it is given a single iterable, so a
     backend handler must not call it with a starred sequence that can be empty
     (``visit_all(*o.bodies, o.else_body)`` degenerates to
     ``visit_all(o.else_body)`` for a construct with only a default branch: the
     statements are visited one by one and all but the first are lost in the
     ``zip`` with the single ``CASE DEFAULT`` line) -- all backends.
 R7  a transformer handler returns a node: no ``return <node>._update(...)`` in a
     ``Transformer`` subclass -- ``_update`` modifies in place and returns
     ``None``, which a transformer takes for "drop this node" (the frontend's
     sanitising transformers run on every parsed unit).
 R8  presence of an expression-valued attribute is an identity test in the Fortran
     backend: ``o.length`` / ``o.data_source`` / ``o.status_var`` and the like are
     never tested for truth -- ``IntLiteral(0)`` and ``.false.`` are falsy, so
     ``CHARACTER(LEN=0)`` or ``SOURCE=0`` would be dropped on regeneration.
 R9  import attributes are not inherited from the provider: wherever a frontend
     derives the type of an imported symbol from the providing module's symbol
     table (``<type>.clone(imported=True, ...)``), ``use_name`` is passed
     explicitly (the local rename, or ``None``) -- the provider's own ``use_name``
     records how *it* obtained the symbol; copied along, the regenerated ``USE``
     statement renames the symbol to a name the provider does not export.
 R10 what is specified for one entity of a declaration is consulted on both
     sides: ``FParser2IR.visit_Type_Declaration_Stmt`` reads each variable's own
     ``dimensions`` where it attaches the common DIMENSION shape and its own
     ``dimensions`` / ``type.length`` where it writes the symbol-table entry, and
     ``FortranCodegen._construct_decl_variables`` reads ``v.dimensions`` next to the
     declaration's and ``v.type.length`` -- otherwise ``y(2*n)`` in ``REAL,
     DIMENSION(n) :: x, y(2*n)`` or ``b*10`` in ``CHARACTER(LEN=5) :: a, b*10`` is
     replaced by the common specification.
 R11 slot coverage: a frontend handler that picks children of its parse-tree node
     by position (``o.items[k]`` / ``o.children[k]``) reads *every* position the
     grammar class produces (arity of the tuples returned by its ``match``, read
     from the fparser source), unless it iterates over all of them; positions
     that only hold a construct name or punctuation are listed with the reason.
     An unread position is an operand silently dropped (``p(0:) => a`` parsed as
     ``p => a``: the bounds specification sits in position 1).
Not decided: that a consumed operand is rendered correctly beyond R4 (C06 covers
expression printing in general), run-time equality.
"""
import ast

from sa import dispatch as D, exprs as X
from sa.model import AnalysisError, NOFOLD
from sa.mutate import Mutant

PROP = 'C01'

META = dict(
    technique='writer/reader agreement over class tables: IR constructor call sites in the fparser frontend vs static dispatch '
              'and field reads of the Fortran backend; parse-tree-argument usage of each frontend handler vs the operand '
              'declaration (use_names) of the fparser grammar class',
    level='Decides three structural necessary conditions of "nothing is lost": every constructed node class has a real backend '
          'handler; every field the frontend fills is read by that handler; every frontend handler for a grammar class with '
          'operands looks at the parse tree. Does NOT decide correct rendering or behavioural equality.',
    note='Grammar operands are read from fparser/two/Fortran2003.py (+Fortran2008) source as installed in /venv.',
    ref='DESIGN.md section 3, C01',
)

FE = 'loki/frontend/fparser.py'
BE = 'loki/backend/fgen.py'
# fields consumed generically (labels and source by visit_tuple / conservative backend), CUDA-only fields printed by cufgen
R2_EXEMPT = {
    ('*', 'source'): 'consumed by the conservative backend', ('*', 'label'): 'applied by FortranCodegen.visit_tuple',
    ('CallStatement', 'chevron'): 'CUDA Fortran launch configuration, printed by cufgen',
    ('CallStatement', 'not_active'): 'analysis flag, no source text',
    ('*', 'symbol_attrs'): 'symbol table, not source text', ('*', 'parent'): 'scope link, not source text',
    ('TypeDef', 'parent'): 'scope link', ('Associate', 'parent'): 'scope link',
    ('Loop', 'has_end_do'): 'printing hint honoured via style (END DO always emitted)',
    ('WhileLoop', 'has_end_do'): 'printing hint',
    ('Conditional', 'has_elseif'): 'read through kwargs is_elseif by the nested conditional',
    ('StatementFunction', 'return_type'): 'declared separately by its VariableDeclaration',
    ('Interface', 'body'): 'printed via visit of o.body', ('RawSource', 'text'): 'verbatim',
}
R3_EXEMPT = {
    'Return_Stmt': 'alternate return (RETURN expr) is obsolescent and outside the supported subset',
    'Continue_Stmt': 'no operands', 'Contains_Stmt': 'no operands',
}


def _grammar_use_names(m):
    """class name -> use_names list, merged over Fortran2003 and Fortran2008 (2008 overrides)."""
    out = {}
    for modname in ('fparser.two.Fortran2003', 'fparser.two.Fortran2008'):
        mod = m.module(modname)
        if mod is None:
            if modname.endswith('2003'):
                raise AnalysisError('fparser.two.Fortran2003 not found in site-packages')
            continue
        mods = [mod]
        # Fortran2008 is a package of modules in newer fparser versions
        import os
        if mod.is_pkg:
            pdir = os.path.dirname(mod.path)
            for f in sorted(os.listdir(pdir)):
                if f.endswith('.py') and f != '__init__.py':
                    sub = m.module(f'{modname}.{f[:-3]}')
                    if sub:
                        mods.append(sub)
        for mm in mods:
            for c in mm.classes.values():
                v = c.members.get('use_names')
                if v is not None and v.kind == 'attr':
                    val = m.const(mm, v.node, c)
                    if val is not NOFOLD:
                        out[c.name] = list(val)
    return out


# (grammar class, position) that a handler may leave unread, with the reason
SLOT_EXEMPT = {
    ('Case_Stmt', 1): 'optional construct name repeated on the CASE line',
    ('Else_If_Stmt', 1): 'optional construct name repeated on the ELSE IF line',
    ('Type_Guard_Stmt', 2): 'optional construct name repeated on the TYPE IS line',
    ('Procedure_Stmt', 1): 'the MODULE keyword / `::` punctuation', ('Procedure_Stmt', 2): 'the MODULE keyword / `::` punctuation',
    ('Specific_Binding', 2): '`::` punctuation',
    ('Loop_Control', 2): 'DO CONCURRENT control: not supported by the frontend (fails loudly)',
    ('Loop_Control', 3): 'DO CONCURRENT control: not supported by the frontend (fails loudly)',
    ('Assignment_Stmt', 1): 'the `=` token',
}


def _grammar_arity(m):
    """class name -> largest arity of the tuples returned by its `match` (Fortran2003 / Fortran2008 sources)"""
    import os
    out = {}
    for modname in ('fparser.two.Fortran2003', 'fparser.two.Fortran2008'):
        mod = m.module(modname)
        if mod is None:
            continue
        mods = [mod]
        if mod.is_pkg:
            pdir = os.path.dirname(mod.path)
            for f in sorted(os.listdir(pdir)):
                if f.endswith('.py') and f != '__init__.py':
                    sub = m.module(f'{modname}.{f[:-3]}')
                    if sub:
                        mods.append(sub)
        for mm in mods:
            for c in mm.classes.values():
                mt = c.members.get('match')
                if mt is None or mt.kind != 'func':
                    continue
                ar = [len(r.value.elts) for r in ast.walk(mt.node) if isinstance(r, ast.Return) and isinstance(r.value, ast.Tuple)]
                if ar:
                    out[c.name] = max(ar)
    return out


def run_r11(ctx):
    import re
    m = ctx.model
    ctx.rule('R11', 'FParser2IR handlers indexing o.items[k] / o.children[k] read every position of the grammar class (arity from its match), '
                    'modulo the exemption table')
    arity = _grammar_arity(m)
    ctx.floor('R11', 'grammar classes with a tuple-returning match', len(arity), 100)
    P = m.get_class(FE, 'FParser2IR')
    n = 0
    for name in sorted(P.members):
        if not name.startswith('visit_'):
            continue
        K = name[6:]
        a = arity.get(K)
        f = m.member_function(P, name)
        if not a or f is None:
            continue
        par = f.node.args.args[1].arg if len(f.node.args.args) > 1 else None
        txt = ast.unparse(f.node)
        if re.search(rf'for \w+ in {par}\.(items|children)\b|{par}\.(items|children)\)|\*{par}\.(items|children)|{par}\.(items|children)\[\d*:', txt):
            continue
        idx = {int(x.group(2)) for x in re.finditer(rf'{par}\.(items|children)\[(\d+)\]', txt)}
        if not idx:
            continue
        n += 1
        miss = [i for i in range(a) if i not in idx and (K, i) not in SLOT_EXEMPT]
        inst = f'{name}:{K}'
        if miss:
            ctx.violation('R11', f'FParser2IR.{name}:unread-position-{miss[0]}', f.where,
                          f'{f.qualname} reads positions {sorted(idx)} of a {K} node, whose match produces {a} positions: position {miss} is '
                          f'never consulted, so what the source states there is dropped from the IR (p(0:) => a became p => a while the bounds '
                          f'specification of a Pointer_Assignment_Stmt sat unread in position 1)', instance=inst)
        else:
            ctx.judge('R11', inst, facts={'arity': a, 'read': sorted(idx)})
    ctx.floor('R11', 'handlers indexing their node by position', n, 40)


def run(ctx):
    m = ctx.model
    ctx.rule('R1', 'every ir.<Class>(...) constructed in loki/frontend/fparser.py dispatches in FortranCodegen to a handler other '
                   'than the fallback visit_Node')
    ctx.rule('R2', 'every field set at a frontend construction site of class N is read (o.<field>) by the backend handler '
                   'selected for N, or by a helper that handler passes o to')
    ctx.rule('R3', 'frontend handler visit_<K> reads its parse-tree parameter whenever fparser class K declares operands (use_names)')
    fe = m.module_by_path(FE)
    F2I = fe.classes.get('FParser2IR')
    if F2I is None:
        raise AnalysisError('FParser2IR vanished')
    nodes = {c.name: c for c in D.ir_node_classes(m)}
    # construction sites
    built = {}
    for n in ast.walk(F2I.node):
        if isinstance(n, ast.Call) and isinstance(n.func, ast.Attribute) and isinstance(n.func.value, ast.Name) \
                and n.func.value.id == 'ir' and n.func.attr in nodes:
            cls = nodes[n.func.attr]
            fields = list(m.dataclass_fields(cls))
            # positional arguments follow the dataclass field order of the *own* fields (pydantic dataclass __init__)
            pos = [f for f in fields if f not in ('source', 'label')]
            used = set(k.arg for k in n.keywords if k.arg)
            for i, a in enumerate(n.args):
                if i < len(pos):
                    used.add(pos[i])
            built.setdefault(cls.name, set()).update(used)
    ctx.floor('R1', 'IR node classes constructed by the frontend', len(built), 35)
    G = m.get_class(BE, 'FortranCodegen')
    handlers = D.visitor_handlers(m, G)
    for cname in sorted(built):
        cls = nodes[cname]
        f, key = D.visitor_dispatch(m, G, cls, handlers)
        if f is None or (f.name == 'visit_Node'):
            ctx.violation('R1', cname, G.where, f'{cname} is constructed by the frontend but FortranCodegen prints it with '
                          f'{f.qualname if f else None} (`! <repr>` comment): the statement disappears from the output')
            continue
        ctx.judge('R1', cname, facts={'handler': f.qualname})
        # R2: fields read by handler (+ helpers taking o)
        par = X.param_name(f)
        reads = set(X.attr_reads_of(f.node, par))
        seen = {f.fqn}
        work = [f]
        while work:
            cur = work.pop()
            cpar = X.param_name(cur)
            for c in ast.walk(cur.node):
                if isinstance(c, ast.Call) and any(isinstance(a, ast.Name) and a.id == cpar for a in c.args):
                    d = X.dotted_attr(c.func) or ''
                    callee = None
                    if d.startswith('self.'):
                        callee = m.member_function(G, d.split('.', 1)[1])
                    elif d.startswith('super().'):
                        callee = m.member_function(G, d.split('.', 1)[1], after=cur.cls)
                    if callee is not None and callee.fqn not in seen:
                        seen.add(callee.fqn)
                        idx = [i for i, a in enumerate(c.args) if isinstance(a, ast.Name) and a.id == cpar][0]
                        hp = X.param_name(callee, idx + 1)
                        if hp:
                            reads |= set(X.attr_reads_of(callee.node, hp))
                            work.append(callee)
        # properties of the node class that wrap a field (o.variables -> symbols ...)
        extra = set()
        for r in list(reads):
            mem = m.lookup(cls, r)
            if mem is not None and mem.kind == 'func':
                extra |= set(X.attr_reads_of(mem.node, 'self'))
        reads |= extra
        if 'children' in reads or 'args' in reads:
            reads |= set(D.traversable(m, cls))
        for fld in sorted(built[cname]):
            inst = f'{cname}.{fld}'
            ex = R2_EXEMPT.get((cname, fld)) or R2_EXEMPT.get(('*', fld))
            if ex:
                ctx.judge('R2', inst, nontrivial=False, facts={'exempt': ex})
            elif fld in reads:
                ctx.judge('R2', inst, facts={'handler': f.qualname})
            else:
                ctx.violation('R2', inst, f.where, f'the frontend fills {cname}.{fld} but {f.qualname} (and the helpers it hands the '
                              f'node to) never reads it: that part of the statement is not regenerated',
                              facts={'handler': f.qualname, 'reads': sorted(reads)})
    # ---- R3
    use_names = _grammar_use_names(m)
    ctx.floor('R3', 'fparser grammar classes with operand declarations', len(use_names), 250)
    nh = 0
    for name in F2I.members:
        if not name.startswith('visit_') or '@' in name:
            continue
        K = name[len('visit_'):]
        f = m.member_function(F2I, name)
        if f is None or f.cls is None or f.cls.name != 'FParser2IR':
            continue
        nh += 1
        ops = use_names.get(K)
        par = X.param_name(f)
        # data dependence: some returned value (or a side-effecting call) is computed from the parse-tree parameter
        tainted = {par}
        changed = True
        while changed:
            changed = False
            for n in ast.walk(f.node):
                pairs = []
                if isinstance(n, ast.Assign):
                    pairs = [(t, n.value) for t in n.targets]
                elif isinstance(n, (ast.AugAssign, ast.AnnAssign)) and n.value is not None:
                    pairs = [(n.target, n.value)]
                elif isinstance(n, ast.NamedExpr):
                    pairs = [(n.target, n.value)]
                elif isinstance(n, (ast.For, ast.comprehension)):
                    pairs = [(n.target, n.iter)]
                elif isinstance(n, ast.With):
                    pairs = [(i.optional_vars, i.context_expr) for i in n.items if i.optional_vars is not None]
                for t, v in pairs:
                    if any(isinstance(x, ast.Name) and x.id in tainted for x in ast.walk(v)):
                        for x in ast.walk(t):
                            if isinstance(x, ast.Name) and x.id not in tainted:
                                tainted.add(x.id)
                                changed = True
        rets = [r for r in ast.walk(f.node) if isinstance(r, (ast.Return, ast.Yield)) and r.value is not None]
        uses_o = any(isinstance(x, ast.Name) and x.id in tainted for r in rets for x in ast.walk(r.value))
        if not uses_o and not rets:
            # handlers without a return value act through side effects: any use of the parameter counts
            uses_o = any(isinstance(n, ast.Name) and n.id == par for n in ast.walk(ast.Module(body=f.node.body, type_ignores=[])))
        inst = f'visit_{K}'
        if uses_o or not ops:
            ctx.judge('R3', inst, nontrivial=bool(ops), facts={'handler': f.name, 'operands': ops})
        elif any(isinstance(n, ast.Call) and X.call_name_of(n) == 'warn_or_fail' for n in ast.walk(f.node)) or \
                any(isinstance(n, ast.Raise) for n in ast.walk(f.node)):
            ctx.judge('R3', inst, nontrivial=False, facts={'exempt': 'explicitly reported as unsupported (warn_or_fail / raise)'})
        elif K in R3_EXEMPT:
            ctx.judge('R3', inst, nontrivial=False, facts={'exempt': R3_EXEMPT[K]})
        else:
            ctx.violation('R3', f'FParser2IR.visit_{K}', f.where,
                          f'fparser class {K} carries operands {ops} but the value returned by {f.name} does not depend on the parse tree '
                          f'(`{ast.unparse(f.node.body[-1])}`): the operands are dropped from the IR', facts={'operands': ops})
    ctx.floor('R3', 'frontend handlers', nh, 230)

    # ---- R4
    ctx.rule('R4', 'operator classes the frontend does not wrap in Parenthesised* nodes (read off visit_Parenthesis) are parenthesised '
                   'by FCodeMapper wherever Fortran needs it (C06 slot rule restricted to those child classes)')
    from sa.printers import judge_printer
    vp = m.get_function('loki/frontend/fparser.py', 'FParser2IR.visit_Parenthesis')
    wrapped = set()
    for n in ast.walk(vp.node):
        if isinstance(n, ast.Call) and X.call_name_of(n) == 'isinstance' and len(n.args) == 2:
            wrapped |= {(X.dotted_attr(c) or ast.unparse(c)).split('.')[-1] for c in
                        (n.args[1].elts if isinstance(n.args[1], ast.Tuple) else [n.args[1]])}
    ctx.floor('R4', 'operator classes wrapped by visit_Parenthesis', len(wrapped), 4)
    ctx.extra['frontend_wraps'] = sorted(wrapped)
    KIND_CLASS = {'Sum': 'Sum', 'Product': 'Product', 'Quotient': 'Quotient', 'Power': 'Power', 'Neg': 'Product',
                  'And': 'LogicalAnd', 'Or': 'LogicalOr', 'Not': 'LogicalNot', 'Comparison': 'Comparison'}
    _, n4 = judge_printer(ctx, 'R4', 'loki/backend/fgen.py', 'FCodeMapper', 'fortran',
                          child_filter=lambda k: KIND_CLASS.get(k, k) not in wrapped)
    ctx.floor('R4', 'operator pairs judged (unwrapped child classes)', n4, 12)
    _r5(ctx)


def _r5(ctx):
    from sa.miniev import run_block, Unknown
    m = ctx.model
    ctx.rule('R5', 'FParser2IR handlers of SELECT CASE / SELECT TYPE: abstract execution of the `if <default> in values:` block for '
                   'n = 1..4 alternatives and every default position keeps (value, body) pairs aligned and else_body = body of the default')
    F = m.get_class('loki/frontend/fparser.py', 'FParser2IR')
    n5 = 0
    for hn in ('visit_Case_Construct', 'visit_Select_Type_Construct'):
        f = F.function(hn)
        if f is None:
            raise AnalysisError(f'FParser2IR.{hn} vanished')
        # the parallel sequences: `values` is built from the CASE / type-guard statements, `bodies` from the statements between them
        blocks = [st for st in ast.walk(f.node) if isinstance(st, ast.If) and isinstance(st.test, ast.Compare)
                  and isinstance(st.test.ops[0], ast.In) and isinstance(st.test.comparators[0], ast.Name)
                  and isinstance(st.test.left, (ast.Constant, ast.Tuple))]
        if len(blocks) != 1:
            raise AnalysisError(f'{hn}: default-extraction block (`if <default> in <values>:`) not found')
        blk = blocks[0]
        vname = blk.test.comparators[0].id
        stores = [t.id for st in ast.walk(blk) for t in ast.walk(st) if isinstance(t, ast.Name) and isinstance(t.ctx, ast.Store)]
        # the other sequence re-bound in the block (besides the values and scalars) and the extracted default body
        seqs = [nm for nm in dict.fromkeys(stores) if nm != vname and any(
            isinstance(a, ast.Assign) and any(isinstance(t, ast.Name) and t.id == nm or
                                              (isinstance(t, (ast.Tuple, ast.List)) and any(isinstance(e, ast.Starred) and isinstance(e.value, ast.Name)
                                                                                            and e.value.id == nm for e in t.elts))
                                              for t in a.targets)
            and (isinstance(a.value, ast.BinOp) or isinstance(a.value, ast.Call) or isinstance(a.value, ast.Name)) and nm in ast.unparse(a.value)
            for a in ast.walk(blk))]
        if len(seqs) != 1:
            raise AnalysisError(f'{hn}: the sequence of bodies re-bound in the default-extraction block is not unique ({seqs})')
        bname = seqs[0]
        others = [nm for nm in dict.fromkeys(stores) if nm not in (vname, bname)]
        enames = [nm for nm in others if any(isinstance(a, ast.Assign) and ast.unparse(a.value) == '()' and
                                            any(isinstance(t, ast.Name) and t.id == nm for t in a.targets) for a in ast.walk(blk))]
        if len(enames) != 1:
            raise AnalysisError(f'{hn}: the extracted default body (assigned `()` in the else branch) is not unique ({enames})')
        ename = enames[0]
        try:
            marker = ast.literal_eval(blk.test.left)
        except ValueError:
            raise AnalysisError(f'{hn}: default marker `{ast.unparse(blk.test.left)}` is not a literal')
        n5 += 1
        bad = None
        for n in range(1, 5):
            for p in list(range(n)) + [None]:
                values = tuple(marker if i == p else f'v{i}' for i in range(n))
                bodies = tuple(f'b{i}' for i in range(n))
                env = {vname: values, bname: bodies}
                try:
                    run_block([blk], env)
                except Unknown as u:
                    raise AnalysisError(f'{hn}: default-extraction block uses `{u}`, outside the evaluated fragment')
                except (ValueError, IndexError) as exc:
                    bad = bad or (n, p, f'raises {exc!r}')
                    continue
                want_pairs = tuple((v, b) for i, (v, b) in enumerate(zip(values, bodies)) if i != p)
                got_pairs = tuple(zip(tuple(env[vname]), tuple(env[bname])))
                want_else = bodies[p] if p is not None else ()
                if (got_pairs != want_pairs or tuple(env[ename]) != tuple(want_else) if p is None else
                        got_pairs != want_pairs or env[ename] != want_else) or len(env[vname]) != len(env[bname]):
                    bad = bad or (n, p, f"values={env[vname]} bodies={env[bname]} else_body={env[ename]!r}")
        inst = f'FParser2IR.{hn}:default-extraction'
        if bad:
            n_, p_, got = bad
            ctx.violation('R5', inst, f'{f.module.relpath}:{blk.lineno}',
                          f'with {n_} alternatives and the default at position {p_} the block yields {got}: selectors are paired with the '
                          f'bodies of other alternatives (the default need not come last in SELECT CASE / SELECT TYPE)',
                          facts={'alternatives': n_, 'default_position': p_, 'result': got})
        else:
            ctx.judge('R5', inst, facts={'marker': repr(marker), 'cases_evaluated': 14})
    ctx.floor('R5', 'default-extraction blocks', n5, 2)
    run_r678(ctx)
    run_r11(ctx)


EXPR_ATTRS = {'length', 'data_source', 'status_var', 'initial'}


def run_r678(ctx):
    m = ctx.model
    ctx.rule('R6', 'backends: visit_all is never called with a starred argument (single-iterable special case)')
    ctx.rule('R7', 'Transformer subclasses: no `return <x>._update(...)` (in-place update returns None = node dropped)')
    ctx.rule('R8', 'FortranCodegen: expression-valued attributes (length, data_source, status_var, initial) are tested with `is (not) None`')
    n6 = 0
    for mod in [x for x in m.all_repo_modules(packages=('loki',)) if x.relpath.startswith('loki/backend/')]:
        for fn in [x for x in ast.walk(mod.tree) if isinstance(x, ast.FunctionDef)]:
            for c in ast.walk(fn):
                if isinstance(c, ast.Call) and isinstance(c.func, ast.Attribute) and c.func.attr == 'visit_all':
                    n6 += 1
                    inst = f'{mod.relpath}:{fn.name}:{ast.unparse(c)[:60]}'
                    st = [a for a in c.args if isinstance(a, ast.Starred)]
                    if st:
                        ctx.violation('R6', f'{fn.name}:starred-visit_all', f'{mod.relpath}:{c.lineno}',
                                      f'`{ast.unparse(c)[:80]}`: when `{ast.unparse(st[0].value)}` is empty the call has a single iterable argument and '
                                      f'visit_all visits its *elements*: a SELECT CASE with only CASE DEFAULT (a WHERE with only ELSEWHERE, ...) '
                                      f'is printed with the first statement of its body only', instance=inst)
                    else:
                        ctx.judge('R6', inst, nontrivial=False)
    ctx.floor('R6', 'visit_all calls in the backends', n6, 20)
    T = m.get_class('loki/ir/transformer.py', 'Transformer')
    upd = m.get_class('loki/ir/nodes/abstract_nodes.py', 'Node').function('_update')
    if upd is None or any(isinstance(r, ast.Return) and r.value is not None for r in ast.walk(upd.node)):
        raise AnalysisError('Node._update now returns a value: rule R7 is stale')
    n7 = 0
    for mod in m.all_repo_modules(packages=('loki',)):
        for cls_ in mod.classes.values():
            if T not in m.mro(cls_):
                continue
            for name, mem in cls_.members.items():
                if mem.kind != 'func' or not name.startswith('visit_'):
                    continue
                n7 += 1
                par = [a.arg for a in mem.node.args.args][1:2]
                bad = [r for r in ast.walk(mem.node) if isinstance(r, ast.Return) and isinstance(r.value, ast.Call)
                       and isinstance(r.value.func, ast.Attribute) and r.value.func.attr == '_update'
                       and isinstance(r.value.func.value, ast.Name) and r.value.func.value.id != 'self']
                inst = f'{cls_.name}.{name}'
                if bad:
                    ctx.violation('R7', f'{inst}:returns-update', f'{mod.relpath}:{bad[0].lineno}',
                                  f'`{ast.unparse(bad[0])[:80]}`: Node._update changes the node in place and returns None, and a transformer '
                                  f'handler that returns None removes the node from its parent (REAL :: f, x followed by EXTERNAL f loses the '
                                  f'declaration of x)', instance=inst)
                else:
                    ctx.judge('R7', inst, nontrivial=False)
    ctx.floor('R7', 'visit handlers of Transformer subclasses', n7, 60)
    from sa import exprs as X
    F = m.get_class('loki/backend/fgen.py', 'FortranCodegen')
    n8 = 0
    for name, mem in F.members.items():
        if mem.kind != 'func' or not name.startswith('visit_'):
            continue
        par = [a.arg for a in mem.node.args.args][1] if len(mem.node.args.args) > 1 else None
        uses = [n for n in ast.walk(mem.node) if isinstance(n, ast.Attribute) and n.attr in EXPR_ATTRS and isinstance(n.value, ast.Name) and n.value.id == par]
        if not uses:
            continue
        n8 += 1
        truthy = []

        def operands(x, acc):
            if isinstance(x, ast.BoolOp):
                for v in x.values:
                    operands(v, acc)
            elif isinstance(x, ast.UnaryOp) and isinstance(x.op, ast.Not):
                operands(x.operand, acc)
            else:
                acc.append(x)
        for n in ast.walk(mem.node):
            tests = [n.test] if isinstance(n, (ast.If, ast.IfExp, ast.While)) else ([n] if isinstance(n, ast.BoolOp) else [])
            for t in tests:
                acc = []
                operands(t, acc)
                truthy += [o for o in acc if any(o is u for u in uses)]
        inst = f'FortranCodegen.{name}'
        if truthy:
            ctx.violation('R8', f'{inst}:{truthy[0].attr}:truthiness', f'{mem.owner.module.relpath}:{truthy[0].lineno}',
                          f'`{ast.unparse(truthy[0])}` is tested for truth: a literal 0 / .false. is a falsy expression node, so '
                          f'CHARACTER(LEN=0), SOURCE=0, STAT=... with such a value are not printed', instance=inst)
        else:
            ctx.judge('R8', inst, facts={'attributes': sorted({u.attr for u in uses})})
    ctx.floor('R8', 'handlers reading expression-valued attributes', n8, 2)
    ctx.rule('R9', 'frontends: every <type>.clone(imported=True, ...) passes use_name= explicitly')
    n9 = 0
    for rel in ('loki/frontend/fparser.py', 'loki/frontend/omni.py'):
        mod = m.module_by_path(rel)
        for c in ast.walk(mod.tree):
            if isinstance(c, ast.Call) and isinstance(c.func, ast.Attribute) and c.func.attr == 'clone' \
                    and any(k.arg == 'imported' and isinstance(k.value, ast.Constant) and k.value.value is True for k in c.keywords):
                n9 += 1
                inst = f'{rel}:{ast.unparse(c)[:70]}'
                if any(k.arg == 'use_name' for k in c.keywords):
                    ctx.judge('R9', inst, nontrivial=False)
                else:
                    ctx.violation('R9', f'{rel.rsplit("/", 1)[-1]}:imported-clone-inherits-use_name', f'{rel}:{c.lineno}',
                                  f'`{ast.unparse(c)[:90]}` copies the attributes of the providing module\'s symbol including its `use_name`: if the '
                                  f'provider itself imported the symbol under a rename (use a, only: x => y), the importing unit is regenerated as '
                                  f'`USE provider, ONLY: x => y`, which binds x to a different entity or does not compile', instance=inst)
    ctx.floor('R9', 'imported-type clones in the frontends', n9, 8)
    # ---- R10
    ctx.rule('R10', 'per-entity dimensions / character length are read where the common specification is applied (frontend) and printed (backend)')
    FP_ = m.get_class('loki/frontend/fparser.py', 'FParser2IR')
    td = FP_.function('visit_Type_Declaration_Stmt')
    if td is None:
        raise AnalysisError('FParser2IR.visit_Type_Declaration_Stmt vanished')

    def entity_reads(node, var):
        out = set()
        for a in ast.walk(node):
            if isinstance(a, ast.Attribute) and isinstance(a.value, ast.Name) and a.value.id == var:
                out.add(a.attr)
            if isinstance(a, ast.Attribute) and isinstance(a.value, ast.Attribute) and isinstance(a.value.value, ast.Name) \
                    and a.value.value.id == var and a.value.attr == 'type':
                out.add('type.' + a.attr)
            if isinstance(a, ast.Call) and isinstance(a.func, ast.Name) and a.func.id == 'getattr' and len(a.args) >= 2 \
                    and isinstance(a.args[0], ast.Name) and a.args[0].id == var and isinstance(a.args[1], ast.Constant):
                out.add(a.args[1].value)
        return out
    helpers = {n.name: n for n in ast.walk(td.node) if isinstance(n, ast.FunctionDef) and n is not td.node}
    opar = [a.arg for a in td.node.args.args][1]
    vnames = set(X.names_assigned_from(td.node, f'{opar}.children[2]'))
    comps = [c for c in ast.walk(td.node) if isinstance(c, (ast.GeneratorExp, ast.ListComp, ast.DictComp)) and len(c.generators) == 1
             and isinstance(c.generators[0].target, ast.Name) and isinstance(c.generators[0].iter, ast.Name)
             and c.generators[0].iter.id in vnames]
    redim = [c for c in comps if any(isinstance(k, ast.keyword) and k.arg == 'dimensions' for k in ast.walk(c))]
    table = [c for c in comps if isinstance(c, ast.DictComp)]
    if not redim or not table:
        raise AnalysisError('visit_Type_Declaration_Stmt: re-dimensioning / symbol-table comprehensions over `variables` not found')
    for c in redim:
        v = c.generators[0].target.id
        rd = entity_reads(c, v)
        (ctx.judge('R10', 'frontend: DIMENSION attribute applied per entity', facts={'reads': sorted(rd)}) if 'dimensions' in rd else
         ctx.violation('R10', 'visit_Type_Declaration_Stmt:common-shape-overrides-entity', f'{td.module.relpath}:{c.lineno}',
                       f'`{ast.unparse(c)[:90]}` gives every declared variable the shape of the DIMENSION attribute without looking at the '
                       f'variable\'s own array specification: REAL, DIMENSION(n) :: x, y(2*n) declares y(n)'))
    for c in table:
        v = c.generators[0].target.id
        rd = entity_reads(c, v)
        for call in ast.walk(c):
            if isinstance(call, ast.Call) and isinstance(call.func, ast.Name) and call.func.id in helpers and call.args \
                    and isinstance(call.args[0], ast.Name) and call.args[0].id == v:
                h = helpers[call.func.id]
                rd |= entity_reads(h, h.args.args[0].arg)
        miss = [x for x in ('dimensions', 'type.length') if x not in rd]
        (ctx.judge('R10', 'frontend: symbol-table entry keeps entity-specific shape and length', facts={'reads': sorted(rd)}) if not miss else
         ctx.violation('R10', 'visit_Type_Declaration_Stmt:common-attributes-override-entity', f'{td.module.relpath}:{c.lineno}',
                       f'the symbol-table entry of each declared variable is written from the common type without reading the variable\'s own '
                       f'{miss}: CHARACTER(LEN=5) :: a, b*10 gives b the length 5, REAL, DIMENSION(n) :: x, y(2*n) gives y the shape (n)'))
    Fg = m.get_class('loki/backend/fgen.py', 'FortranCodegen')
    cd = Fg.function('_construct_decl_variables')
    if cd is None:
        raise AnalysisError('FortranCodegen._construct_decl_variables vanished')
    loops = [l for l in ast.walk(cd.node) if isinstance(l, ast.For) and isinstance(l.target, ast.Name) and ast.unparse(l.iter).endswith('.symbols')]
    if not loops:
        raise AnalysisError('_construct_decl_variables: loop over the declared symbols not found')
    v = loops[0].target.id
    rd = entity_reads(loops[0], v)
    miss = [x for x in ('dimensions', 'type.length') if x not in rd]
    (ctx.judge('R10', 'backend: entity-specific dimensions and length are printed', facts={'reads': sorted(rd)}) if not miss else
     ctx.violation('R10', 'FortranCodegen._construct_decl_variables:entity-spec-not-printed', f'{cd.module.relpath}:{loops[0].lineno}',
                   f'the declared entities are printed without reading their own {miss}: an array specification or character length given '
                   f'for one entity is replaced by the common one of the declaration'))


MUTANTS = [
    Mutant('pointer-bounds-unread', FE,
           "        if ptr and o.items[1] is not None:\n            # Bounds specification or bounds remapping of the pointer object,\n            # e.g., ``p(0:) => a`` or ``q(1:2, 1:5) => a``\n            lhs = lhs.clone(dimensions=as_tuple(self.visit(o.items[1], **kwargs)))\n",
           "", expect=('R11', 'visit_Pointer_Assignment_Stmt')),
    Mutant('common-shape-overrides-entity', 'loki/frontend/fparser.py',
           "                v if getattr(v, 'dimensions', None) else v.clone(dimensions=_type.shape) for v in variables\n", "                v.clone(dimensions=_type.shape) for v in variables\n",
           expect=('R10', 'common-shape-overrides-entity')),
    Mutant('entity-length-not-printed', 'loki/backend/fgen.py',
           "            if v.type.length is not None and v.type.length != o.symbols[0].type.length:\n                # Entity-specific character length\n                var += f'*({self.visit(v.type.length, **kwargs)})'\n",
           "", expect=('R10', 'entity-spec-not-printed')),
    Mutant('imported-clone-inherits-use-name', 'loki/frontend/fparser.py',
           "                        scope.symbol_attrs[s.name] = _type.clone(\n                            imported=True, module=module, use_name=None\n                        )",
           "                        scope.symbol_attrs[s.name] = _type.clone(imported=True, module=module)", expect=('R9', 'inherits-use_name')),
    Mutant('starred-bodies', 'loki/backend/fgen.py', "        bodies = self.visit_all((*o.bodies, o.else_body), **kwargs)", "        bodies = self.visit_all(*o.bodies, o.else_body, **kwargs)",
           count=2, expect=('R6', 'starred-visit_all')),
    Mutant('handler-returns-update', 'loki/frontend/util.py', "        if len(symbols) < len(o.symbols):\n            o._update(symbols=symbols)\n        return o",
           "        if len(symbols) < len(o.symbols):\n            return o._update(symbols=symbols)\n        return o", expect=('R7', 'returns-update')),
    Mutant('length-by-truthiness', 'loki/backend/fgen.py', "        if o.length is not None:", "        if o.length:", expect=('R8', 'length:truthiness')),
    Mutant('source-by-truthiness', 'loki/backend/fgen.py', "        if o.data_source is not None:", "        if o.data_source:", expect=('R8', 'data_source:truthiness')),
    Mutant('save-entities-dropped', 'loki/frontend/fparser.py', "        return ir.SaveStmt(text=entities, **kwargs)\n", "        return ir.SaveStmt(**kwargs)\n",
           expect=('R3', 'visit_Save_Stmt')),
    Mutant('case-default-assumed-last', 'loki/frontend/fparser.py',
           "            default_index = values.index('DEFAULT')\n            else_body = bodies[default_index]\n            values = values[:default_index] + values[default_index+1:]\n            bodies = bodies[:default_index] + bodies[default_index+1:]\n",
           "            values = tuple(v for v in values if v != 'DEFAULT')\n            *bodies, else_body = bodies\n", expect=('R5', 'visit_Case_Construct')),
    Mutant('type-default-off-by-one', 'loki/frontend/fparser.py',
           "            default_index = values.index((None, None))\n            else_body = bodies[default_index]\n            values = values[:default_index] + values[default_index+1:]\n            bodies = bodies[:default_index] + bodies[default_index+1:]\n",
           "            default_index = values.index((None, None))\n            else_body = bodies[default_index]\n            values = values[:default_index] + values[default_index+1:]\n            bodies = bodies[:default_index+1] + bodies[default_index+2:]\n", expect=('R5', 'visit_Select_Type_Construct')),
    Mutant('neutral-default-filter-both', 'loki/frontend/fparser.py',
           "            values = values[:default_index] + values[default_index+1:]\n            bodies = bodies[:default_index] + bodies[default_index+1:]\n        else:\n            else_body = ()\n\n        # Everything past the END ASSOCIATE (should be empty)\n        assert not o.children[end_select_stmt_index+1:]\n\n        case_construct",
           "            bodies = tuple(b for i, b in enumerate(bodies) if i != default_index)\n            values = tuple(v for i, v in enumerate(values) if i != default_index)\n        else:\n            else_body = ()\n\n        # Everything past the END ASSOCIATE (should be empty)\n        assert not o.children[end_select_stmt_index+1:]\n\n        case_construct", expect=None),
    Mutant('not-operand-prec-lowered', 'loki/backend/fgen.py', '".not." + self.rec(expr.child, PREC_UNARY, *args, **kwargs)',
           '".not." + self.rec(expr.child, PREC_LOGICAL_AND, *args, **kwargs)', expect=('R4', 'Not.child<-And')),
    Mutant('backend-handler-removed', BE,
           "    def visit_Nullify(self, o, **kwargs):", "    def _unused_visit_Nullify(self, o, **kwargs):", expect=('R1', 'Nullify'), quick=True),
    Mutant('frontend-drops-goto-label', FE, "        label = o.items[0].tostr()\n        return ir.GotoStmt(text=label, **kwargs)",
           "        return ir.GotoStmt(text='', **kwargs)", expect=('R3', 'visit_Goto_Stmt')),
    Mutant('backend-ignores-data-source', BE, "o.data_source", "None", count=2, expect=('R2', 'Allocation.data_source')),
]
