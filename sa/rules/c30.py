"""
C30  Array-notation resolution and index normalisation preserve behaviour.

Only the last sentence of the property and the index mapping of sections are
decided ("Fortran semantics of array assignment, where the right-hand side is
evaluated before any element is assigned, are kept even when the sides overlap"):
 R1  overlap awareness: turning ``lhs(sec) = f(rhs arrays)`` into a loop nest is
     only equivalent if the assigned array is not read on the right-hand side at
     other elements (or a temporary is introduced).  Hence somewhere on the path
     from ``ResolveVectorNotationTransformer.visit_Assignment`` the assigned
     array (its symbol / name, not its dimensions) must be compared with the
     arrays read on the right-hand side.  If no reachable function relates the
     two, ``a(2:n) = a(1:n-1)`` becomes the recurrence ``a(i) = a(i-1)``.
 R2  stride awareness: the index expression substituted for a section of a
     right-hand-side array is computed from the ranges of both sides; the
     functions computing it must read the ``step`` of the ranges (or refuse
     strided sections).  Reading only ``lower`` maps ``a(n:1:-1)`` like ``a(n:)``.
 R3  wiring: the loop bounds are taken from the left-hand-side range including
     its step, and the statement is rewritten before it is wrapped.
Not decided: index arithmetic of shifts, explicit-dimension insertion / removal,
zero-based shifting, flattening (all value-level).
"""
import ast

from sa import exprs as X, callgraph as CG
from sa.model import AnalysisError
from sa.mutate import Mutant

PROP = 'C30'

META = dict(
    technique='taint-and-compare analysis over the resolved call graph of the vector-notation resolver: which values derive from '
              'the assigned array symbol, which from the arrays read, and whether any comparison relates them; attribute-read '
              'analysis (step of ranges) of the functions that build the substituted index',
    level='Decides two structural necessary conditions of the overlap / section-mapping clauses: the resolver relates the assigned '
          'array to the arrays read before creating a loop, and the index mapping looks at the stride of the ranges. Does NOT '
          'decide the index arithmetic or any of the other array transformations named by the property.',
    note='Claimed for the overlap clause only; the rest of the property is value-level (see Not decided).',
    ref='DESIGN.md section 3, C30',
)

FILE = 'loki/transformations/array_indexing/vector_notation.py'
CLS = 'ResolveVectorNotationTransformer'


def _taint(fn, seeds, through_dims):
    """names (locals) derived from the seed expressions; `through_dims` selects whether derivation through `.dimensions`
    (the subscripts) counts -- the overlap test needs the array symbol itself"""
    names = set()

    def derived(e):
        for n in ast.walk(e):
            if isinstance(n, ast.Name) and n.id in names:
                return True
            if ast.unparse(n) in seeds:
                return True
        return False
    changed = True
    while changed:
        changed = False
        for n in ast.walk(fn):
            pairs = []
            if isinstance(n, ast.Assign):
                pairs = [(t, n.value) for t in n.targets]
            elif isinstance(n, (ast.For, ast.comprehension)):
                pairs = [(n.target, n.iter)]
            elif isinstance(n, ast.NamedExpr):
                pairs = [(n.target, n.value)]
            for t, v in pairs:
                if not through_dims and any(isinstance(a, ast.Attribute) and a.attr in ('dimensions', 'shape') for a in ast.walk(v)):
                    continue
                if derived(v):
                    for x in ast.walk(t):
                        if isinstance(x, ast.Name) and x.id not in names:
                            names.add(x.id)
                            changed = True
    return names


def run(ctx):
    m = ctx.model
    ctx.rule('R1', 'some function reachable from ResolveVectorNotationTransformer.visit_Assignment compares a value derived from the '
                   'assigned array symbol (stmt.lhs, not its dimensions) with a value derived from the arrays read in stmt.rhs')
    ctx.rule('R2', 'the functions that compute the index substituted for a right-hand-side section read `.step` of the ranges')
    ctx.rule('R3', 'loop bounds come from the left-hand-side range (LoopRange(irange.children)); the statement is updated before wrapping')
    T = m.get_class(FILE, CLS)
    va = T.function('visit_Assignment')
    if va is None:
        raise AnalysisError(f'{CLS}.visit_Assignment vanished')
    par = X.param_name(va)
    reach, unres = CG.reachable(m, [va], limit=120)
    fns = [f for f in reach.values() if f.module.relpath.startswith('loki/transformations/array_indexing')]
    ctx.floor('R1', 'functions of the resolver reachable from visit_Assignment', len(fns), 4)
    # ---- R1
    lnames = _taint(va.node, {f'{par}.lhs'}, through_dims=False)
    rnames = _taint(va.node, {f'{par}.rhs'}, through_dims=False)
    relating = []
    for n in ast.walk(va.node):
        if isinstance(n, ast.Compare) and len(n.ops) == 1:
            sides = [n.left, n.comparators[0]]

            def kind(e):
                txt = ast.unparse(e)
                ks = set()
                for x in ast.walk(e):
                    if isinstance(x, ast.Name):
                        if x.id in lnames:
                            ks.add('L')
                        if x.id in rnames:
                            ks.add('R')
                if f'{par}.lhs' in txt:
                    ks.add('L')
                if f'{par}.rhs' in txt:
                    ks.add('R')
                return ks
            k0, k1 = kind(sides[0]), kind(sides[1])
            if ('L' in k0 and 'R' in k1) or ('R' in k0 and 'L' in k1):
                relating.append(ast.unparse(n))
    facts = {'derived_from_lhs_symbol': sorted(lnames), 'derived_from_rhs_arrays': sorted(rnames), 'relating_comparisons': relating,
             'reachable_functions': sorted(f.qualname for f in fns)}
    if relating:
        ctx.judge('R1', 'visit_Assignment relates the assigned array to the arrays read', facts=facts)
    else:
        ctx.violation('R1', f'{CLS}.visit_Assignment:overlap-not-considered', va.where,
                      f'no comparison on the path from visit_Assignment relates the assigned array (values derived from `{par}.lhs`: '
                      f'{sorted(lnames)}) to the arrays read on the right-hand side ({sorted(rnames)}): an assignment whose sides '
                      f'overlap is turned into a loop that reads elements it has already overwritten (a(2:n) = a(1:n-1) becomes the '
                      f'recurrence a(i) = a(i-1); a(:) = b(:) + a(1) uses the new a(1) from the second iteration on)', facts=facts)
    # ---- R2
    idx_fns = [f for f in fns if any(isinstance(c, ast.Return) for c in ast.walk(f.node))
               and ('shift' in f.name or f is va)]
    ctx.floor('R2', 'functions building the substituted index', len(idx_fns), 2)
    reads_step = [f.qualname for f in idx_fns if any(isinstance(a, ast.Attribute) and a.attr == 'step' for a in ast.walk(f.node))]
    reads_lower = [f.qualname for f in idx_fns if any(isinstance(a, ast.Attribute) and a.attr == 'lower' for a in ast.walk(f.node))]
    if not reads_lower:
        raise AnalysisError('the index mapping of the resolver no longer reads range bounds: rule R2 is stale')
    if reads_step:
        ctx.judge('R2', 'index mapping reads the stride', facts={'functions': reads_step})
    else:
        ctx.violation('R2', f'{CLS}._compute_shifted_index:stride-not-considered', va.where,
                      f'the index substituted for a right-hand-side section is computed from the lower bounds only ({reads_lower} read '
                      f'`.lower`, none reads `.step`): b(1:n) = a(n:1:-1) is rewritten to b(i) = a(i + n - 1), i.e. the section is '
                      f'traversed forwards and beyond its end', facts={'reads_lower': reads_lower})
    # ---- R3
    src = ast.unparse(va.node)
    ok = 'bounds = sym.LoopRange(irange.children)' in src and 'loop = ir.Loop(variable=ivar, body=as_tuple(body), bounds=bounds)' in src
    (ctx.judge('R3', 'loop bounds from the lhs range') if ok else
     ctx.violation('R3', f'{CLS}.visit_Assignment:loop-bounds', va.where, 'the generated loop no longer takes its bounds (incl. step) from the left-hand-side range'))
    upd = [n.lineno for n in ast.walk(va.node) if isinstance(n, ast.Call) and X.dotted_attr(n.func) == f'{par}._update'
           and any(k.arg == 'lhs' for k in n.keywords) and any(k.arg == 'rhs' for k in n.keywords)]
    loops = [n.lineno for n in ast.walk(va.node) if isinstance(n, ast.Call) and X.dotted_attr(n.func) == 'ir.Loop']
    ok = upd and loops and max(upd) < min(loops)
    (ctx.judge('R3', 'statement rewritten before wrapping') if ok else
     ctx.violation('R3', f'{CLS}.visit_Assignment:order', va.where, 'the statement is wrapped in loops before its sections are replaced'))


MUTANTS = [
    # a repaired variant: refuse to resolve when the assigned array is read on the right-hand side
    Mutant('repair-overlap-guard', FILE,
           "        create_loops = kwargs.get('create_loops', True)\n",
           "        create_loops = kwargs.get('create_loops', True)\n        if any(v.name == stmt.lhs.name for v in FindVariables(unique=False).visit(stmt.rhs)):\n            return stmt\n",
           expect=None, quick=True),
    Mutant('loop-bounds-unit-step', FILE, "                    bounds = sym.LoopRange(irange.children)\n",
           "                    bounds = sym.LoopRange((irange.lower, irange.upper))\n", expect=('R3', 'loop-bounds')),
]
