"""
C30  Array-notation resolution and index normalisation preserve behaviour.

Only the last sentence of the property and the index mapping of sections are
decided ("Fortran semantics of array assignment, where the right-hand side is
evaluated before any element is assigned, are kept even when the sides overlap"):
 R1  overlap awareness: turning ``lhs(sec) = f(rhs arrays)`` into a loop nest is
     only equivalent if the assigned array is not read on the right-hand side at
     other elements (or a temporary is introduced).  Hence somewhere on the path
     from ``ResolveVectorNotationTransformer.visit_Assignment`` the assigned
     array (its symbol / name, not its dimensions) must be compared with the
     arrays read on the right-hand side.  If no reachable function relates the
     two, ``a(2:n) = a(1:n-1)`` becomes the recurrence ``a(i) = a(i-1)``.
 R2  stride awareness: the index expression substituted for a section of a
     right-hand-side array is computed from the ranges of both sides; the
     functions computing it must read the ``step`` of the ranges (or refuse
     strided sections).  Reading only ``lower`` maps ``a(n:1:-1)`` like ``a(n:)``.
 R3  wiring: the loop bounds are taken from the left-hand-side range including
     its step, and the statement is rewritten before it is wrapped.
 R4  distinct positions, distinct loop indices: ``_map_ranges_to_indices`` records
     ``index_range_map[ivar] = dim``; an index variable taken from the loop map
     must be tested for membership *as a key of that very map* before it is
     re-used, and the colliding case must skip or pick a fresh variable.
     Otherwise two positions of one array share a loop index (``a(:, :)`` with
     equal extents is traversed along its diagonal) or two different ranges
     mapped to one loop variable overwrite each other's bounds.
 R5  ``flatten_arrays`` drops the subscript list ("whole array") only when every
     subscript is the full range without stride: the predicate is evaluated over
     the abstract subscripts {scalar, lower/upper/step present or absent}.  The
     same for the three ``all(<full range>(dim) for dim in X.dimensions)`` tests of
     ``remove_explicit_array_dimensions`` (helpers expanded from their definitions).
 R6  the shifted index is ``i - a + c``: the expression built by
     ``_compute_shifted_index`` for LHS range ``a:b``, RHS range ``c:d`` and loop
     variable ``i`` is compared, as a linear normal form over the constructor
     tree (``Sum`` / ``Product((-1, x))`` / ``simplify``), with ``loop_var -
     lhs_range.lower + rhs_range.lower`` -- a symbolic identity; a sign slip or
     swapped ranges changes the normal form.
 R7  a rebuilt section keeps every component of the section it replaces: in
     ``loki/transformations/array_indexing/array_indices.py``, a ``RangeIndex``
     whose first component derives from ``X.start`` / ``X.lower`` of a section
     ``X`` has a second component derived from ``X.stop`` / ``X.upper`` and the
     third component ``X.step`` of the *same* ``X`` (not of the declared
     dimension, whose step is always absent), and each component is guarded
     against absence on that same ``X``.
 R8  shifting to lower bound 1 is ``x - lower + 1``: in
     ``normalize_array_shape_and_access`` the new start / stop / scalar index are,
     as linear forms, ``<old> - <declared lower> + 1`` and the new extent is
     ``upper - lower + 1``.
 R9  no subscript escapes the shift: in the branch for a dimension whose declared
     lower bound is not 1, a subscript is appended unchanged only under guards
     that make both its start and its stop absent (a bare ``:``); ``x(:k)`` kept
     as it is would address the old declaration.
Not decided: the other index arithmetic (strided shifts), explicit-dimension insertion / removal,
zero-based shifting, flattening (all value-level).
"""
import ast

from sa import exprs as X, callgraph as CG
from sa.model import AnalysisError
from sa.mutate import Mutant

PROP = 'C30'

META = dict(
    technique='taint-and-compare analysis over the resolved call graph of the vector-notation resolver: which values derive from '
              'the assigned array symbol, which from the arrays read, and whether any comparison relates them; attribute-read '
              'analysis (step of ranges) of the functions that build the substituted index',
    level='Decides two structural necessary conditions of the overlap / section-mapping clauses: the resolver relates the assigned '
          'array to the arrays read before creating a loop, and the index mapping looks at the stride of the ranges. Does NOT '
          'decide the index arithmetic or any of the other array transformations named by the property.',
    note='Claimed for the overlap clause only; the rest of the property is value-level (see Not decided).',
    ref='DESIGN.md section 3, C30',
)

FILE = 'loki/transformations/array_indexing/vector_notation.py'
CLS = 'ResolveVectorNotationTransformer'


def _aliases(fn, par):
    """(L, Rcoll, Relem): direct aliases of the assigned array symbol, collections of the variables read on the right-hand
    side, and loop variables ranging over such collections.  Alias propagation only (plain assignment, filter comprehension,
    direct / zip iteration) -- values merely computed *from* them (new dimensions, positions ...) are not aliases."""
    L, Rcoll, Relem = set(), set(), set()

    def is_l(e):
        return ast.unparse(e) == f'{par}.lhs' or (isinstance(e, ast.Name) and e.id in L)

    def is_rcoll(e):
        if isinstance(e, ast.Name):
            return e.id in Rcoll
        if isinstance(e, ast.Call) and f'.visit({par}.rhs)' in ast.unparse(e):
            return True
        if isinstance(e, (ast.ListComp, ast.GeneratorExp)) and len(e.generators) == 1 and is_rcoll(e.generators[0].iter) \
                and isinstance(e.elt, ast.Name) and isinstance(e.generators[0].target, ast.Name) and e.elt.id == e.generators[0].target.id:
            return True
        if isinstance(e, ast.Call) and X.call_name_of(e) in ('tuple', 'list', 'as_tuple', 'OrderedSet', 'set') and len(e.args) == 1:
            return is_rcoll(e.args[0])
        return False
    changed = True
    while changed:
        changed = False
        for n in ast.walk(fn):
            if isinstance(n, ast.Assign) and len(n.targets) == 1 and isinstance(n.targets[0], ast.Name):
                t = n.targets[0].id
                if is_l(n.value) and t not in L:
                    L.add(t); changed = True
                if is_rcoll(n.value) and t not in Rcoll:
                    Rcoll.add(t); changed = True
            elif isinstance(n, (ast.For, ast.comprehension)):
                it, tg = n.iter, n.target
                if is_rcoll(it) and isinstance(tg, ast.Name) and tg.id not in Relem:
                    Relem.add(tg.id); changed = True
                if isinstance(it, ast.Call) and X.call_name_of(it) in ('zip', 'enumerate') and isinstance(tg, ast.Tuple):
                    args = it.args if X.call_name_of(it) == 'zip' else [None] + list(it.args)
                    for a, t_ in zip(args, tg.elts):
                        if a is not None and is_rcoll(a) and isinstance(t_, ast.Name) and t_.id not in Relem:
                            Relem.add(t_.id); changed = True
    return L, Rcoll, Relem


def run(ctx):
    m = ctx.model
    ctx.rule('R1', 'some function reachable from ResolveVectorNotationTransformer.visit_Assignment compares a value derived from the '
                   'assigned array symbol (stmt.lhs, not its dimensions) with a value derived from the arrays read in stmt.rhs')
    ctx.rule('R2', 'the functions that compute the index substituted for a right-hand-side section read `.step` of the ranges')
    ctx.rule('R3', 'loop bounds come from the left-hand-side range (LoopRange(irange.children)); the statement is updated before wrapping')
    T = m.get_class(FILE, CLS)
    va = T.function('visit_Assignment')
    if va is None:
        raise AnalysisError(f'{CLS}.visit_Assignment vanished')
    par = X.param_name(va)
    reach, unres = CG.reachable(m, [va], limit=120)
    fns = [f for f in reach.values() if f.module.relpath.startswith('loki/transformations/array_indexing')]
    ctx.floor('R1', 'functions of the resolver reachable from visit_Assignment', len(fns), 4)
    # ---- R1
    L, Rcoll, Relem = _aliases(va.node, par)
    lnames, rnames = L, Rcoll | Relem
    relating = []

    def mentions(e, names, extra=None):
        txt = ast.unparse(e)
        return any(isinstance(x, ast.Name) and x.id in names for x in ast.walk(e)) or (extra is not None and extra in txt)
    for n in ast.walk(va.node):
        if isinstance(n, ast.Compare) and len(n.ops) == 1:
            a, b = n.left, n.comparators[0]
            if (mentions(a, L, f'{par}.lhs') and mentions(b, rnames, f'{par}.rhs')) or \
                    (mentions(b, L, f'{par}.lhs') and mentions(a, rnames, f'{par}.rhs')):
                relating.append(ast.unparse(n))
    facts = {'derived_from_lhs_symbol': sorted(lnames), 'derived_from_rhs_arrays': sorted(rnames), 'relating_comparisons': relating,
             'reachable_functions': sorted(f.qualname for f in fns)}
    if relating:
        ctx.judge('R1', 'visit_Assignment relates the assigned array to the arrays read', facts=facts)
    else:
        ctx.violation('R1', f'{CLS}.visit_Assignment:overlap-not-considered', va.where,
                      f'no comparison on the path from visit_Assignment relates the assigned array (values derived from `{par}.lhs`: '
                      f'{sorted(lnames)}) to the arrays read on the right-hand side ({sorted(rnames)}): an assignment whose sides '
                      f'overlap is turned into a loop that reads elements it has already overwritten (a(2:n) = a(1:n-1) becomes the '
                      f'recurrence a(i) = a(i-1); a(:) = b(:) + a(1) uses the new a(1) from the second iteration on)', facts=facts)
    # ---- R2
    idx_fns = [f for f in fns if any(isinstance(c, ast.Return) for c in ast.walk(f.node))
               and ('shift' in f.name or f is va)]
    ctx.floor('R2', 'functions building the substituted index', len(idx_fns), 2)
    reads_step = [f.qualname for f in idx_fns if any(isinstance(a, ast.Attribute) and a.attr == 'step' for a in ast.walk(f.node))]
    reads_lower = [f.qualname for f in idx_fns if any(isinstance(a, ast.Attribute) and a.attr == 'lower' for a in ast.walk(f.node))]
    if not reads_lower:
        raise AnalysisError('the index mapping of the resolver no longer reads range bounds: rule R2 is stale')
    if reads_step:
        ctx.judge('R2', 'index mapping reads the stride', facts={'functions': reads_step})
    else:
        ctx.violation('R2', f'{CLS}._compute_shifted_index:stride-not-considered', va.where,
                      f'the index substituted for a right-hand-side section is computed from the lower bounds only ({reads_lower} read '
                      f'`.lower`, none reads `.step`): b(1:n) = a(n:1:-1) is rewritten to b(i) = a(i + n - 1), i.e. the section is '
                      f'traversed forwards and beyond its end', facts={'reads_lower': reads_lower})
    # ---- R3
    src = ast.unparse(va.node)
    ctx.wired('R3', f'{CLS}.visit_Assignment:loop-bounds', va.where, src,
              ['bounds = sym.LoopRange(irange.children)', 'loop = ir.Loop(variable=ivar, body=as_tuple(body), bounds=bounds)'],
              'the generated loop no longer takes its bounds (incl. step) from the left-hand-side range')
    upd = [n.lineno for n in ast.walk(va.node) if isinstance(n, ast.Call) and X.dotted_attr(n.func) == f'{par}._update'
           and any(k.arg == 'lhs' for k in n.keywords) and any(k.arg == 'rhs' for k in n.keywords)]
    loops = [n.lineno for n in ast.walk(va.node) if isinstance(n, ast.Call) and X.dotted_attr(n.func) == 'ir.Loop']
    ok = upd and loops and max(upd) < min(loops)
    (ctx.judge('R3', 'statement rewritten before wrapping') if ok else
     ctx.violation('R3', f'{CLS}.visit_Assignment:order', va.where, 'the statement is wrapped in loops before its sections are replaced'))
    run_r45(ctx, T)
    run_r6(ctx, T)
    run_r78(ctx)


def run_r6(ctx, T):
    from sa.linform import lin_sym, same, show, NotLinear
    ctx.rule('R6', '_compute_shifted_index returns (as a linear form) loop_var - lhs_range.lower + rhs_range.lower')
    f = T.function('_compute_shifted_index')
    if f is None:
        raise AnalysisError(f'{CLS}._compute_shifted_index vanished')
    pars = [a.arg for a in f.node.args.args if a.arg not in ('self', 'cls')]
    if len(pars) != 3:
        raise AnalysisError('_compute_shifted_index: expected (loop_var, lhs_range, rhs_range)')
    iv, lr, rr = pars
    rets = [r for r in ast.walk(f.node) if isinstance(r, ast.Return) and r.value is not None]
    if len(rets) != 1:
        raise AnalysisError('_compute_shifted_index: expected a single return')
    e = rets[0].value
    # substitute single-definition locals
    for _ in range(4):
        for a in ast.walk(f.node):
            if isinstance(a, ast.Assign) and len(a.targets) == 1 and isinstance(a.targets[0], ast.Name):
                nm = a.targets[0].id

                class S(ast.NodeTransformer):
                    def visit_Name(self, n, nm=nm, v=a.value):
                        return v if n.id == nm and isinstance(n.ctx, ast.Load) else n
                e = S().visit(e)
    try:
        got = lin_sym(e)
    except NotLinear as u:
        raise AnalysisError(f'_compute_shifted_index: `{u}` is outside the linear fragment')
    want = {iv: 1, f'{lr}.lower': -1, f'{rr}.lower': 1}
    # .start is an alias of .lower on ranges
    got = {(k.replace('.start', '.lower') if isinstance(k, str) else k): v for k, v in got.items()}
    if same(got, want):
        ctx.judge('R6', 'shifted index == loop_var - lhs.lower + rhs.lower', facts={'normal_form': show(got)})
    else:
        ctx.violation('R6', f'{CLS}._compute_shifted_index:formula', f'{f.module.relpath}:{rets[0].lineno}',
                      f'the index substituted for a shifted section is `{show(got)}`, not `{show(want)}`: with b(a:..) = x(c:..) the element '
                      f'read for loop index i must be x(i - a + c)')


def run_r78(ctx):
    from sa.linform import lin_py, same, show, NotLinear
    m = ctx.model
    AI = 'loki/transformations/array_indexing/array_indices.py'
    mod = m.module_by_path(AI)
    ctx.rule('R7', 'array_indices.py: RangeIndex((f(X.start), g(X.stop), X.step)) -- all three components come from the same section X')
    ctx.rule('R8', 'normalize_array_shape_and_access: new index == old - declared lower + 1; new extent == upper - lower + 1 (linear forms)')
    n7 = 0
    for fn in [x for x in ast.walk(mod.tree) if isinstance(x, ast.FunctionDef)]:
        for c_ in ast.walk(fn):
            if not (isinstance(c_, ast.Call) and X.call_name_of(c_) == 'RangeIndex' and c_.args and isinstance(c_.args[0], ast.Tuple)):
                continue
            elts = c_.args[0].elts

            # definitions that reach the construction: assignments earlier in the same block (flow-sensitive enough for
            # branch-local temporaries such as `start`, which other branches define differently)
            blk = None
            for b in ast.walk(fn):
                for fld in ('body', 'orelse', 'finalbody'):
                    lst = getattr(b, fld, None)
                    if isinstance(lst, list):
                        for k, st in enumerate(lst):
                            if isinstance(st, ast.stmt) and any(x is c_ for x in ast.walk(st)) and not any(
                                    isinstance(st2, (ast.If, ast.For, ast.While, ast.With)) and any(x is c_ for x in ast.walk(st2)) and st2 is not st
                                    for st2 in ast.walk(st) if isinstance(st2, ast.stmt)):
                                blk = lst[:k]
            local_defs = [a for a in (blk or []) if isinstance(a, ast.Assign)]

            def resolved(e):
                out = [e]
                if isinstance(e, ast.Name):
                    out += [a.value for a in local_defs if any(isinstance(t, ast.Name) and t.id == e.id for t in a.targets)]
                return out

            def sources(e, attrs):
                # section expressions X such that X.<attr> occurs in (a definition of) e, outside of `is None` guards
                out = set()
                for d in resolved(e):
                    body = d.body if isinstance(d, ast.IfExp) else d
                    for n in ast.walk(body):
                        if isinstance(n, ast.Attribute) and n.attr in attrs:
                            out.add(ast.unparse(n.value))
                return out
            first = sources(elts[0], ('start', 'lower'))
            if not first:
                continue                     # a fresh range (shape extent, full range), not a rebuilt section
            n7 += 1
            inst = f'{fn.name}:RangeIndex({", ".join(ast.unparse(e) for e in elts)})'
            why = None
            # alias resolution: `dim = v.dimensions[i]`
            def canon(x):
                for a in ast.walk(fn):
                    if isinstance(a, ast.Assign) and len(a.targets) == 1 and isinstance(a.targets[0], ast.Name) and a.targets[0].id == x:
                        return ast.unparse(a.value)
                return x
            # the section is the source shared by start and stop (the other source of the start is the declared dimension)
            second = sources(elts[1], ('stop', 'upper')) if len(elts) > 1 else set()
            sect = {canon(x) for x in first} & {canon(x) for x in second}
            if not sect:
                why = f'start comes from {sorted(first)} but stop from {sorted(second)}'
            elif len(elts) < 3:
                why = 'the stride of the section is not carried over (two-component range)'
            else:
                third = {canon(x) for x in sources(elts[2], ('step',))}
                if not (third & sect):
                    why = f'the stride is taken from {sorted(third) or ast.unparse(elts[2])}, not from the section {sorted(sect)}'
            if why is None:
                # absence guards on the same section
                for e in elts[:2]:
                    for d in resolved(e):
                        if isinstance(d, ast.IfExp):
                            g = {canon(ast.unparse(n.value)) for n in ast.walk(d.test) if isinstance(n, ast.Attribute)}
                            if not (g & sect):
                                why = f'`{ast.unparse(d)[:70]}` guards absence on {sorted(g)}, not on the section {sorted(sect)}'
            if why:
                ctx.violation('R7', f'{fn.name}:section-components', f'{AI}:{c_.lineno}',
                              f'`{ast.unparse(c_)[:90]}`: {why} -- e.g. a(0:10:2) of a(0:10) must become a(1:11:2), not a(1:11)', instance=inst)
            else:
                ctx.judge('R7', inst, facts={'section': sorted(sect)})
    ctx.floor('R7', 'rebuilt sections in array_indices.py', n7, 2)
    # ---- R8
    nz = m.get_function(AI, 'normalize_array_shape_and_access')
    shifts = [a for a in ast.walk(nz.node) if isinstance(a, ast.Assign) and isinstance(a.targets[0], ast.Name)
              and any(isinstance(c, ast.Call) and X.call_name_of(c) == 'simplify' for c in ast.walk(a.value))]
    n8 = 0

    def canon_e(e):
        class S(ast.NodeTransformer):
            def visit_Name(self, n):
                for a in ast.walk(nz.node):
                    if isinstance(a, ast.Assign) and len(a.targets) == 1 and isinstance(a.targets[0], ast.Name) and a.targets[0].id == n.id \
                            and isinstance(a.value, (ast.Subscript, ast.Attribute)):
                        return a.value
                return n
        import copy
        return S().visit(copy.deepcopy(e))
    decl = None
    for l in ast.walk(nz.node):
        if isinstance(l, ast.For) and 'enumerate' in ast.unparse(l.iter) and '.shape' in ast.unparse(l.iter) and isinstance(l.target, ast.Tuple):
            decl = l.target.elts[1].id
    if decl is None:
        raise AnalysisError('normalize_array_shape_and_access: loop over the declared dimensions not found')
    for c in ast.walk(nz.node):
        if isinstance(c, ast.Call) and X.call_name_of(c) == 'simplify' and len(c.args) == 1:
            e = canon_e(c.args[0])
            try:
                got = lin_py(e)
            except NotLinear:
                continue
            got = {(k.replace('.start', '.lower').replace('.stop', '.upper') if isinstance(k, str) else k): v for k, v in got.items()}
            n8 += 1
            olds = [k for k, v in got.items() if k != 1 and v == 1]
            lows = [k for k, v in got.items() if k != 1 and v == -1]
            ok = got.get(1, 0) == 1 and len(olds) == 1 and len(lows) == 1 and lows[0].endswith('.lower') and lows[0].split('.')[0] == decl
            if ok and olds[0].startswith(f'{decl}.'):
                ok = olds[0] == f'{decl}.upper'              # extent: upper - lower + 1
            inst = f'normalize_array_shape_and_access:{show(got)}'
            if ok:
                ctx.judge('R8', inst)
            else:
                ctx.violation('R8', 'normalize_array_shape_and_access:shift-formula', f'{AI}:{c.lineno}',
                              f'`{ast.unparse(c)}` is `{show(got)}`: shifting an index of a dimension declared lower:upper to lower bound 1 is '
                              f'`<old> - {decl}.lower + 1`, its extent `{decl}.upper - {decl}.lower + 1`', instance=inst)
    ctx.floor('R8', 'shift / extent formulas', n8, 5)
    # ---- R9: under a re-based declaration no subscript is kept as it is, unless it has no bound at all
    ctx.rule('R9', 'normalize_array_shape_and_access: in the branch of a dimension whose declared lower bound is not 1 a subscript is kept '
                   'unchanged only when neither its start nor its stop is present')
    aliases = set()
    for a in ast.walk(nz.node):
        if isinstance(a, ast.Assign) and len(a.targets) == 1 and isinstance(a.targets[0], ast.Name) and isinstance(a.value, ast.Subscript) \
                and isinstance(a.value.value, ast.Attribute) and a.value.value.attr == 'dimensions':
            aliases.add(a.targets[0].id)
    n9 = 0

    def appended(st):
        if isinstance(st, ast.AugAssign) and isinstance(st.op, ast.Add) and isinstance(st.value, (ast.List, ast.Tuple)):
            return list(st.value.elts)
        if isinstance(st, ast.Expr) and isinstance(st.value, ast.Call) and isinstance(st.value.func, ast.Attribute) and st.value.func.attr == 'append':
            return list(st.value.args)
        return []
    for st, guards in X.nodes_with_guards(nz.node, lambda x: bool(appended(x)), early=True):
        rebased = any(g.startswith('is_explicit_range_index(') for g in guards)
        if not rebased:
            continue
        for e in appended(st):
            n9 += 1
            raw = (isinstance(e, ast.Name) and e.id in aliases) or (
                isinstance(e, ast.Subscript) and isinstance(e.value, ast.Attribute) and e.value.attr == 'dimensions')
            inst = f'normalize_array_shape_and_access:{ast.unparse(st)[:50]}'
            if not raw:
                ctx.judge('R9', inst)
                continue
            nm = ast.unparse(e)
            gs = []
            for g in guards:
                try:
                    t_ = ast.parse(g, mode='eval').body
                except SyntaxError:
                    continue
                parts = t_.values if isinstance(t_, ast.BoolOp) and isinstance(t_.op, ast.And) else [t_]
                gs += [ast.unparse(p_).replace(' ', '') for p_ in parts]
            no_lo = any(g in (f'{nm}.startisNone', f'{nm}.lowerisNone') for g in gs)
            no_up = any(g in (f'{nm}.stopisNone', f'{nm}.upperisNone') for g in gs)
            if no_lo and no_up:
                ctx.judge('R9', inst, facts={'guards': guards})
            else:
                ctx.violation('R9', 'normalize_array_shape_and_access:section-not-rebased', f'{AI}:{st.lineno}',
                              f'`{ast.unparse(st)}` keeps the subscript `{nm}` of a dimension whose declaration is re-based to lower bound 1 '
                              f'under [{"; ".join(guards)}]: a bound that is present stays an index of the old declaration -- with x(0:n), '
                              f'`x(:1)` (two elements) stays `x(:1)` (one element)', instance=inst)
    ctx.floor('R9', 'subscripts appended under a re-based declaration', n9, 2)


class _AbsRange:
    """abstract RangeIndex: equality on (lower, upper, step) like the real one's StrCompareMixin over its rendering"""
    def __init__(self, children):
        children = tuple(children) + (None,) * (3 - len(children))
        self.lower, self.upper, self.step = children
        self.start, self.stop = self.lower, self.upper
        self.children = children

    def __eq__(self, other):
        return isinstance(other, _AbsRange) and self.children == other.children

    def __hash__(self):
        return hash(self.children)

    def __repr__(self):
        return ':'.join('' if c is None else str(c) for c in self.children)


def run_r45(ctx, T):
    import itertools
    import types
    from sa.miniev import ev_ext, run_function, Unknown
    m = ctx.model
    ctx.rule('R4', '_map_ranges_to_indices: a loop index taken from the loop map is checked against the keys of the map it is inserted into; '
                   'the colliding branch continues or rebinds the index')
    ctx.rule('R5', 'flatten_arrays.new_dims: subscripts are dropped only if all of them are full, unstrided ranges')
    f = T.function('_map_ranges_to_indices')
    if f is None:
        raise AnalysisError(f'{CLS}._map_ranges_to_indices vanished')
    n_ins = 0
    cands = [(P.arg, v) for P in f.node.args.args for v in X.names_assigned_from(f.node, f'{P.arg}[')]
    for lm, ivar in cands:
        # insertions D[ivar] = ...
        for st, guards in X.nodes_with_guards(f.node, lambda x: isinstance(x, ast.Assign)):
            t = st.targets[0]
            if not (isinstance(t, ast.Subscript) and isinstance(t.slice, ast.Name) and t.slice.id == ivar and isinstance(t.value, ast.Name)):
                continue
            D = t.value.id
            n_ins += 1
            tests = [i_ for i_ in ast.walk(f.node) if isinstance(i_, ast.If) and isinstance(i_.test, ast.Compare) and len(i_.test.ops) == 1
                     and isinstance(i_.test.ops[0], ast.In) and ast.unparse(i_.test.left) == ivar
                     and ast.unparse(i_.test.comparators[0]) in (D, f'{D}.keys()') and i_.lineno < st.lineno]
            ok = False
            for i_ in tests:
                last = i_.body[-1]
                rebinds = any(isinstance(b, ast.Assign) and any(isinstance(x, ast.Name) and x.id == ivar for x in b.targets) for b in i_.body)
                if rebinds or isinstance(last, (ast.Continue, ast.Return, ast.Raise)):
                    ok = True
            inst = f'{CLS}._map_ranges_to_indices:{D}[<loop index>]'
            if ok:
                ctx.judge('R4', inst, facts={'guard': [ast.unparse(i_.test) for i_ in tests]})
            else:
                ctx.violation('R4', f'{CLS}._map_ranges_to_indices:index-collision-unchecked', f'{f.module.relpath}:{st.lineno}',
                              f'`{ast.unparse(st)}` re-uses the loop index found in `{lm}` without testing `{ivar} in {D}` first: two '
                              f'positions (or two different ranges mapped to the same loop variable) end up with one index and one range, '
                              f'e.g. a(1:n, 1:n) = 0 is reduced to its diagonal')
    ctx.floor('R4', 'insertions of a re-used loop index', n_ins, 1)
    # ---- R5
    fa = m.get_function('loki/transformations/array_indexing/array_indices.py', 'flatten_arrays')
    inner = {n.name: n for n in fa.node.body if isinstance(n, ast.FunctionDef)}
    nd = inner.get('new_dims')
    if nd is None:
        raise AnalysisError('flatten_arrays.new_dims vanished')
    dpar = nd.args.args[0].arg
    drop = next((s_ for s_ in X.body_nodoc(nd) if isinstance(s_, ast.If) and s_.body and isinstance(s_.body[-1], ast.Return)
                 and isinstance(s_.body[-1].value, ast.Constant) and s_.body[-1].value.value is None), None)
    if drop is None:
        raise AnalysisError('flatten_arrays.new_dims: the branch dropping the subscripts (return None) was not found')
    env0 = {'sym': types.SimpleNamespace(RangeIndex=_AbsRange), 'isinstance': isinstance, 'start_index': 1}
    for nm, fn_ in inner.items():
        if nm != 'new_dims':
            def mk(fn_=fn_):
                def call(*a):
                    e2 = dict(env0)
                    e2.update({p.arg: v for p, v in zip(fn_.args.args, a)})
                    return run_function(fn_, e2)
                return call
            env0[nm] = mk()
    subs = ['i'] + [_AbsRange(c) for c in itertools.product((None, 'l'), (None, 'u'), (None, 's'))]
    rows = bad = 0
    for k in (1, 2):
        for dims in itertools.product(subs, repeat=k):
            env = dict(env0)
            env[dpar] = dims
            try:
                got = bool(ev_ext(drop.test, env))
            except Unknown as u:
                raise AnalysisError(f'flatten_arrays.new_dims: whole-array predicate uses `{u}`, outside the evaluated fragment')
            want = all(isinstance(d, _AbsRange) and d.children == (None, None, None) for d in dims)
            rows += 1
            if got and not want:
                bad += 1
                ctx.violation('R5', 'flatten_arrays.new_dims:subscripts-dropped', f'{fa.module.relpath}:{drop.lineno}',
                              f'`{ast.unparse(drop.test)}` holds for the subscripts ({", ".join(map(repr, dims))}) and the reference is '
                              f'rewritten to the whole array: the section bounds / stride are lost')
                break
        if bad:
            break
    if not bad:
        ctx.judge('R5', 'whole-array predicate', facts={'rows': rows})
        ctx.floor('R5', 'subscript tuples evaluated', rows, 9)
    # the same predicate in remove_explicit_array_dimensions: `all(<full range>(dim) for dim in X.dimensions)`
    vmod = m.module_by_path(FILE)
    rf = vmod.functions.get('remove_explicit_array_dimensions')
    if rf is None:
        raise AnalysisError('remove_explicit_array_dimensions vanished')
    envv = {'sym': types.SimpleNamespace(RangeIndex=_AbsRange), 'isinstance': isinstance}
    for nm, fn_ in vmod.functions.items():
        if nm != rf.name:
            def mk2(fn_=fn_):
                def call(*a):
                    e2 = dict(envv)
                    e2.update({p.arg: v for p, v in zip(fn_.node.args.args, a)})
                    return run_function(fn_.node, e2)
                return call
            envv[nm] = mk2()
    n5b = 0
    for c_ in ast.walk(rf.node):
        if not (isinstance(c_, ast.Call) and isinstance(c_.func, ast.Name) and c_.func.id == 'all' and c_.args
                and isinstance(c_.args[0], (ast.GeneratorExp, ast.ListComp)) and len(c_.args[0].generators) == 1
                and ast.unparse(c_.args[0].generators[0].iter).endswith('.dimensions') and isinstance(c_.args[0].generators[0].target, ast.Name)):
            continue
        n5b += 1
        gen = c_.args[0]
        tv = gen.generators[0].target.id
        inst = f'remove_explicit_array_dimensions:{ast.unparse(c_)[:70]}'
        wrong = None
        for d_ in subs:
            env = dict(envv)
            env[tv] = d_
            try:
                got = bool(ev_ext(gen.elt, env))
            except Unknown as u:
                raise AnalysisError(f'remove_explicit_array_dimensions: whole-array predicate `{ast.unparse(gen.elt)}` uses `{u}`, outside the '
                                    f'evaluated fragment')
            want = isinstance(d_, _AbsRange) and d_.children == (None, None, None)
            if got and not want:
                wrong = d_
                break
        if wrong is None:
            ctx.judge('R5', inst, facts={'subscripts_evaluated': len(subs)})
        else:
            ctx.violation('R5', 'remove_explicit_array_dimensions:subscripts-dropped', f'{vmod.relpath}:{c_.lineno}',
                          f'`{ast.unparse(gen.elt)}` holds for the subscript `{wrong!r}`: a reference such as a({wrong!r}) is rewritten to the whole '
                          f'array `a`, every element is assigned / passed instead of the selected ones', instance=inst)
    ctx.floor('R5', 'whole-array predicates in remove_explicit_array_dimensions', n5b, 3)


MUTANTS = [
    Mutant('strided-section-taken-for-whole-array', FILE, "            if all(dim == sym.RangeIndex((None, None)) for dim in array.dimensions):",
           "            if all(isinstance(dim, sym.RangeIndex) and dim.lower is None and dim.upper is None for dim in array.dimensions):",
           expect=('R5', 'remove_explicit_array_dimensions:subscripts-dropped')),
    Mutant('neutral-full-range-by-components', FILE, "            if all(dim == sym.RangeIndex((None, None)) for dim in array.dimensions):",
           "            if all(isinstance(dim, sym.RangeIndex) and dim.lower is None and dim.upper is None and dim.step is None for dim in array.dimensions):",
           expect=None),
    Mutant('open-start-section-not-rebased', 'loki/transformations/array_indexing/array_indices.py',
           "                        start = simplify(dim.start - d.start + 1) if dim.start is not None else None\n                        stop = simplify(dim.stop",
           "                        if dim.start is None:\n                            new_dims += [dim]\n                            continue\n"
           "                        start = simplify(dim.start - d.start + 1)\n                        stop = simplify(dim.stop", expect=('R9', 'section-not-rebased')),
    Mutant('neutral-bare-colon-kept', 'loki/transformations/array_indexing/array_indices.py',
           "                        start = simplify(dim.start - d.start + 1) if dim.start is not None else None\n                        stop = simplify(dim.stop",
           "                        if dim.start is None and dim.stop is None:\n                            new_dims += [dim]\n                            continue\n"
           "                        start = simplify(dim.start - d.start + 1) if dim.start is not None else None\n                        stop = simplify(dim.stop", expect=None),
    Mutant('normalised-section-loses-stride', 'loki/transformations/array_indexing/array_indices.py',
           "                        new_dims += [sym.RangeIndex((start, stop, dim.step))]", "                        new_dims += [sym.RangeIndex((start, stop, d.step))]",
           expect=('R7', 'section-components')),
    Mutant('normalised-stop-off-by-one', 'loki/transformations/array_indexing/array_indices.py',
           "stop = simplify(dim.stop - d.start + 1) if dim.stop is not None else None", "stop = simplify(dim.stop - d.start) if dim.stop is not None else None",
           expect=('R8', 'shift-formula')),
    Mutant('extent-without-plus-one', 'loki/transformations/array_indexing/array_indices.py',
           "            new_shape = [sym.RangeIndex((1, simplify(d.upper - d.lower + 1)))", "            new_shape = [sym.RangeIndex((1, simplify(d.upper - d.lower)))",
           expect=('R8', 'shift-formula')),
    Mutant('shift-sign-slip', FILE, "return simplify(sym.Sum((loop_var, sym.Product((-1, lhs_range.lower)), rhs_range.lower)))",
           "return simplify(sym.Sum((loop_var, lhs_range.lower, sym.Product((-1, rhs_range.lower)))))", expect=('R6', 'formula')),
    Mutant('neutral-shift-reordered', FILE, "return simplify(sym.Sum((loop_var, sym.Product((-1, lhs_range.lower)), rhs_range.lower)))",
           "offset = sym.Sum((rhs_range.lower, sym.Product((sym.IntLiteral(-1), lhs_range.lower))))\n        return simplify(sym.Sum((offset, loop_var)))", expect=None),
    Mutant('collision-test-on-values', FILE, "                    if ivar in index_range_map:", "                    if dim in index_range_map.values():",
           expect=('R4', 'index-collision-unchecked')),
    Mutant('neutral-collision-test-on-keys', FILE, "                    if ivar in index_range_map:", "                    if ivar in index_range_map.keys():",
           expect=None),
    Mutant('whole-array-ignores-stride', 'loki/transformations/array_indexing/array_indices.py',
           "        if all(_dim == sym.RangeIndex((None, None)) for _dim in dim):",
           "        if all(isinstance(_dim, sym.RangeIndex) and _dim.lower is None and _dim.upper is None for _dim in dim):",
           expect=('R5', 'subscripts-dropped')),
    Mutant('neutral-whole-array-explicit', 'loki/transformations/array_indexing/array_indices.py',
           "        if all(_dim == sym.RangeIndex((None, None)) for _dim in dim):",
           "        if all(_dim == sym.RangeIndex((None, None, None)) for _dim in dim):",
           expect=None),
    # a repaired variant: refuse to resolve when the assigned array is read on the right-hand side
    Mutant('repair-overlap-guard', FILE,
           "        create_loops = kwargs.get('create_loops', True)\n",
           "        create_loops = kwargs.get('create_loops', True)\n        if any(v.name == stmt.lhs.name for v in FindVariables(unique=False).visit(stmt.rhs)):\n            return stmt\n",
           expect=None, quick=True),
    Mutant('loop-bounds-unit-step', FILE, "                    bounds = sym.LoopRange(irange.children)\n",
           "                    bounds = sym.LoopRange((irange.lower, irange.upper))\n", expect=('R3', 'loop-bounds')),
]
