"""
C30  Array-notation resolution and index normalisation preserve behaviour.

Only the last sentence of the property and the index mapping of sections are
decided ("Fortran semantics of array assignment, where the right-hand side is
evaluated before any element is assigned, are kept even when the sides overlap"):
 R1  overlap awareness: turning ``lhs(sec) = f(rhs arrays)`` into a loop nest is
     only equivalent if the assigned array is not read on the right-hand side at
     other elements (or a temporary is introduced).  Hence somewhere on the path
     from ``ResolveVectorNotationTransformer.visit_Assignment`` the assigned
     array (its symbol / name, not its dimensions) must be compared with the
     arrays read on the right-hand side.  If no reachable function relates the
     two, ``a(2:n) = a(1:n-1)`` becomes the recurrence ``a(i) = a(i-1)``.
 R2  stride awareness: the index expression substituted for a section of a
     right-hand-side array is computed from the ranges of both sides; the
     functions computing it must read the ``step`` of the ranges (or refuse
     strided sections).  Reading only ``lower`` maps ``a(n:1:-1)`` like ``a(n:)``.
 R3  wiring: the loop bounds are taken from the left-hand-side range including
     its step, and the statement is rewritten before it is wrapped.
Not decided: index arithmetic of shifts, explicit-dimension insertion / removal,
zero-based shifting, flattening (all value-level).
"""
import ast

from sa import exprs as X, callgraph as CG
from sa.model import AnalysisError
from sa.mutate import Mutant

PROP = 'C30'

META = dict(
    technique='taint-and-compare analysis over the resolved call graph of the vector-notation resolver: which values derive from '
              'the assigned array symbol, which from the arrays read, and whether any comparison relates them; attribute-read '
              'analysis (step of ranges) of the functions that build the substituted index',
    level='Decides two structural necessary conditions of the overlap / section-mapping clauses: the resolver relates the assigned '
          'array to the arrays read before creating a loop, and the index mapping looks at the stride of the ranges. Does NOT '
          'decide the index arithmetic or any of the other array transformations named by the property.',
    note='Claimed for the overlap clause only; the rest of the property is value-level (see Not decided).',
    ref='DESIGN.md section 3, C30',
)

FILE = 'loki/transformations/array_indexing/vector_notation.py'
CLS = 'ResolveVectorNotationTransformer'


def _aliases(fn, par):
    """(L, Rcoll, Relem): direct aliases of the assigned array symbol, collections of the variables read on the right-hand
    side, and loop variables ranging over such collections.  Alias propagation only (plain assignment, filter comprehension,
    direct / zip iteration) -- values merely computed *from* them (new dimensions, positions ...) are not aliases."""
    L, Rcoll, Relem = set(), set(), set()

    def is_l(e):
        return ast.unparse(e) == f'{par}.lhs' or (isinstance(e, ast.Name) and e.id in L)

    def is_rcoll(e):
        if isinstance(e, ast.Name):
            return e.id in Rcoll
        if isinstance(e, ast.Call) and f'.visit({par}.rhs)' in ast.unparse(e):
            return True
        if isinstance(e, (ast.ListComp, ast.GeneratorExp)) and len(e.generators) == 1 and is_rcoll(e.generators[0].iter) \
                and isinstance(e.elt, ast.Name) and isinstance(e.generators[0].target, ast.Name) and e.elt.id == e.generators[0].target.id:
            return True
        if isinstance(e, ast.Call) and X.call_name_of(e) in ('tuple', 'list', 'as_tuple', 'OrderedSet', 'set') and len(e.args) == 1:
            return is_rcoll(e.args[0])
        return False
    changed = True
    while changed:
        changed = False
        for n in ast.walk(fn):
            if isinstance(n, ast.Assign) and len(n.targets) == 1 and isinstance(n.targets[0], ast.Name):
                t = n.targets[0].id
                if is_l(n.value) and t not in L:
                    L.add(t); changed = True
                if is_rcoll(n.value) and t not in Rcoll:
                    Rcoll.add(t); changed = True
            elif isinstance(n, (ast.For, ast.comprehension)):
                it, tg = n.iter, n.target
                if is_rcoll(it) and isinstance(tg, ast.Name) and tg.id not in Relem:
                    Relem.add(tg.id); changed = True
                if isinstance(it, ast.Call) and X.call_name_of(it) in ('zip', 'enumerate') and isinstance(tg, ast.Tuple):
                    args = it.args if X.call_name_of(it) == 'zip' else [None] + list(it.args)
                    for a, t_ in zip(args, tg.elts):
                        if a is not None and is_rcoll(a) and isinstance(t_, ast.Name) and t_.id not in Relem:
                            Relem.add(t_.id); changed = True
    return L, Rcoll, Relem


def run(ctx):
    m = ctx.model
    ctx.rule('R1', 'some function reachable from ResolveVectorNotationTransformer.visit_Assignment compares a value derived from the '
                   'assigned array symbol (stmt.lhs, not its dimensions) with a value derived from the arrays read in stmt.rhs')
    ctx.rule('R2', 'the functions that compute the index substituted for a right-hand-side section read `.step` of the ranges')
    ctx.rule('R3', 'loop bounds come from the left-hand-side range (LoopRange(irange.children)); the statement is updated before wrapping')
    T = m.get_class(FILE, CLS)
    va = T.function('visit_Assignment')
    if va is None:
        raise AnalysisError(f'{CLS}.visit_Assignment vanished')
    par = X.param_name(va)
    reach, unres = CG.reachable(m, [va], limit=120)
    fns = [f for f in reach.values() if f.module.relpath.startswith('loki/transformations/array_indexing')]
    ctx.floor('R1', 'functions of the resolver reachable from visit_Assignment', len(fns), 4)
    # ---- R1
    L, Rcoll, Relem = _aliases(va.node, par)
    lnames, rnames = L, Rcoll | Relem
    relating = []

    def mentions(e, names, extra=None):
        txt = ast.unparse(e)
        return any(isinstance(x, ast.Name) and x.id in names for x in ast.walk(e)) or (extra is not None and extra in txt)
    for n in ast.walk(va.node):
        if isinstance(n, ast.Compare) and len(n.ops) == 1:
            a, b = n.left, n.comparators[0]
            if (mentions(a, L, f'{par}.lhs') and mentions(b, rnames, f'{par}.rhs')) or \
                    (mentions(b, L, f'{par}.lhs') and mentions(a, rnames, f'{par}.rhs')):
                relating.append(ast.unparse(n))
    facts = {'derived_from_lhs_symbol': sorted(lnames), 'derived_from_rhs_arrays': sorted(rnames), 'relating_comparisons': relating,
             'reachable_functions': sorted(f.qualname for f in fns)}
    if relating:
        ctx.judge('R1', 'visit_Assignment relates the assigned array to the arrays read', facts=facts)
    else:
        ctx.violation('R1', f'{CLS}.visit_Assignment:overlap-not-considered', va.where,
                      f'no comparison on the path from visit_Assignment relates the assigned array (values derived from `{par}.lhs`: '
                      f'{sorted(lnames)}) to the arrays read on the right-hand side ({sorted(rnames)}): an assignment whose sides '
                      f'overlap is turned into a loop that reads elements it has already overwritten (a(2:n) = a(1:n-1) becomes the '
                      f'recurrence a(i) = a(i-1); a(:) = b(:) + a(1) uses the new a(1) from the second iteration on)', facts=facts)
    # ---- R2
    idx_fns = [f for f in fns if any(isinstance(c, ast.Return) for c in ast.walk(f.node))
               and ('shift' in f.name or f is va)]
    ctx.floor('R2', 'functions building the substituted index', len(idx_fns), 2)
    reads_step = [f.qualname for f in idx_fns if any(isinstance(a, ast.Attribute) and a.attr == 'step' for a in ast.walk(f.node))]
    reads_lower = [f.qualname for f in idx_fns if any(isinstance(a, ast.Attribute) and a.attr == 'lower' for a in ast.walk(f.node))]
    if not reads_lower:
        raise AnalysisError('the index mapping of the resolver no longer reads range bounds: rule R2 is stale')
    if reads_step:
        ctx.judge('R2', 'index mapping reads the stride', facts={'functions': reads_step})
    else:
        ctx.violation('R2', f'{CLS}._compute_shifted_index:stride-not-considered', va.where,
                      f'the index substituted for a right-hand-side section is computed from the lower bounds only ({reads_lower} read '
                      f'`.lower`, none reads `.step`): b(1:n) = a(n:1:-1) is rewritten to b(i) = a(i + n - 1), i.e. the section is '
                      f'traversed forwards and beyond its end', facts={'reads_lower': reads_lower})
    # ---- R3
    src = ast.unparse(va.node)
    ok = X.has(src, 'bounds = sym.LoopRange(irange.children)') and X.has(src, 'loop = ir.Loop(variable=ivar, body=as_tuple(body), bounds=bounds)')
    (ctx.judge('R3', 'loop bounds from the lhs range') if ok else
     ctx.violation('R3', f'{CLS}.visit_Assignment:loop-bounds', va.where, 'the generated loop no longer takes its bounds (incl. step) from the left-hand-side range'))
    upd = [n.lineno for n in ast.walk(va.node) if isinstance(n, ast.Call) and X.dotted_attr(n.func) == f'{par}._update'
           and any(k.arg == 'lhs' for k in n.keywords) and any(k.arg == 'rhs' for k in n.keywords)]
    loops = [n.lineno for n in ast.walk(va.node) if isinstance(n, ast.Call) and X.dotted_attr(n.func) == 'ir.Loop']
    ok = upd and loops and max(upd) < min(loops)
    (ctx.judge('R3', 'statement rewritten before wrapping') if ok else
     ctx.violation('R3', f'{CLS}.visit_Assignment:order', va.where, 'the statement is wrapped in loops before its sections are replaced'))


MUTANTS = [
    # a repaired variant: refuse to resolve when the assigned array is read on the right-hand side
    Mutant('repair-overlap-guard', FILE,
           "        create_loops = kwargs.get('create_loops', True)\n",
           "        create_loops = kwargs.get('create_loops', True)\n        if any(v.name == stmt.lhs.name for v in FindVariables(unique=False).visit(stmt.rhs)):\n            return stmt\n",
           expect=None, quick=True),
    Mutant('loop-bounds-unit-step', FILE, "                    bounds = sym.LoopRange(irange.children)\n",
           "                    bounds = sym.LoopRange((irange.lower, irange.upper))\n", expect=('R3', 'loop-bounds')),
]
