"""
E6 -- finite boolean-function evaluation of small decision procedures.

A block of statements made of if/elif/else, continue/break/return and simple
assignments is interpreted over *atoms*: every leaf condition (after stripping
``and``/``or``/``not``) is a free boolean variable identified by its normalised
source text.  Enumerating all assignments of the atoms gives the exact truth
table of "which exit is taken / which marked statement executes".  No code from
the repository is executed; unknown leaf expressions simply become atoms.
"""
import ast
import itertools


def leaves(test, out=None):
    out = out if out is not None else []
    if isinstance(test, ast.BoolOp):
        for v in test.values:
            leaves(v, out)
    elif isinstance(test, ast.UnaryOp) and isinstance(test.op, ast.Not):
        leaves(test.operand, out)
    else:
        t = canon(test)[0]
        if t not in out:
            out.append(t)
    return out


def canon(node):
    """(atom text, polarity) -- normalises `x is not None` to (`x is None`, False) etc."""
    if isinstance(node, ast.Compare) and len(node.ops) == 1:
        op = node.ops[0]
        l, r = ast.unparse(node.left), ast.unparse(node.comparators[0])
        if isinstance(op, ast.IsNot):
            return f'{l} is {r}', False
        if isinstance(op, ast.NotEq):
            return f'{l} == {r}', False
        if isinstance(op, ast.NotIn):
            return f'{l} in {r}', False
    return ast.unparse(node), True


def ev(test, env):
    if isinstance(test, ast.BoolOp):
        vals = (ev(v, env) for v in test.values)
        return all(vals) if isinstance(test.op, ast.And) else any(vals)
    if isinstance(test, ast.UnaryOp) and isinstance(test.op, ast.Not):
        return not ev(test.operand, env)
    if isinstance(test, ast.NamedExpr):
        return ev(test.value, env)
    t, pol = canon(test)
    v = env[t]
    return v if pol else not v


def collect_atoms(stmts, out=None):
    out = out if out is not None else []
    for st in stmts:
        if isinstance(st, ast.If):
            for t in leaves(st.test):
                if t not in out:
                    out.append(t)
            collect_atoms(st.body, out)
            collect_atoms(st.orelse, out)
        elif isinstance(st, (ast.For, ast.While, ast.With, ast.Try)):
            collect_atoms(getattr(st, 'body', []), out)
    return out


def run_block(stmts, env, marks, is_mark):
    """Interpret; returns exit label ('continue'|'break'|'return'|None).  Statements for which
    ``is_mark(stmt)`` holds are recorded in ``marks`` when executed."""
    for st in stmts:
        if isinstance(st, ast.If):
            branch = st.body if ev(st.test, env) else st.orelse
            r = run_block(branch, env, marks, is_mark)
            if r is not None:
                return r
        elif isinstance(st, ast.Continue):
            return 'continue'
        elif isinstance(st, ast.Break):
            return 'break'
        elif isinstance(st, ast.Return):
            if is_mark(st):
                marks.append(st)
            return 'return'
        else:
            if is_mark(st):
                marks.append(st)
    return None


def truth_table(stmts, is_mark=lambda st: False, constraints=lambda env: True, extra_atoms=()):
    """Yield (env, exit_label, marks) for every assignment of the atoms satisfying ``constraints``."""
    atoms = collect_atoms(stmts)
    for a in extra_atoms:
        if a not in atoms:
            atoms.append(a)
    for bits in itertools.product((False, True), repeat=len(atoms)):
        env = dict(zip(atoms, bits))
        if not constraints(env):
            continue
        marks = []
        label = run_block(stmts, env, marks, is_mark)
        yield env, label, marks
