"""
Tiny evaluator for guard expressions over small abstract domains (tuples of None / 'X', integers): constants, names from
an environment, and/or/not, comparisons, len(), all()/any() over a one-generator comprehension, constant subscripts.
Anything else raises ``Unknown`` (callers turn that into an ANALYSIS-ERROR: the guard is outside the evaluated fragment).
Only expression ASTs extracted from the analysed source are interpreted here; no code of the repository is executed.
"""
import ast


class Unknown(Exception):
    pass

def ev(e, env):
    if isinstance(e, ast.Constant):
        return e.value
    if isinstance(e, ast.Name):
        if e.id in env:
            return env[e.id]
        raise Unknown(e.id)
    if isinstance(e, ast.BoolOp):
        vals = [ev(v, env) for v in e.values]
        return all(vals) if isinstance(e.op, ast.And) else any(vals)
    if isinstance(e, ast.UnaryOp) and isinstance(e.op, ast.Not):
        return not ev(e.operand, env)
    if isinstance(e, ast.Subscript):
        v = ev(e.value, env)
        i = ev(e.slice, env)
        try:
            return v[i]
        except (IndexError, TypeError):
            return 'X'
    if isinstance(e, ast.Call) and isinstance(e.func, ast.Name) and e.func.id == 'len' and len(e.args) == 1:
        return len(ev(e.args[0], env))
    if isinstance(e, ast.Call) and isinstance(e.func, ast.Name) and e.func.id in ('all', 'any') and len(e.args) == 1 \
            and isinstance(e.args[0], ast.GeneratorExp) and len(e.args[0].generators) == 1 and isinstance(e.args[0].generators[0].target, ast.Name):
        g = e.args[0].generators[0]
        seq = ev(g.iter, env)
        vals = [ev(e.args[0].elt, {**env, g.target.id: x}) for x in seq if all(ev(i, {**env, g.target.id: x}) for i in g.ifs)]
        return all(vals) if e.func.id == 'all' else any(vals)
    if isinstance(e, ast.Compare) and len(e.ops) == 1:
        a, b = ev(e.left, env), ev(e.comparators[0], env)
        op = e.ops[0]
        if isinstance(op, ast.Is):
            return a is b
        if isinstance(op, ast.IsNot):
            return a is not b
        if isinstance(op, ast.Eq):
            return a == b
        if isinstance(op, ast.NotEq):
            return a != b
        if isinstance(op, ast.Gt):
            return a > b
        if isinstance(op, ast.Lt):
            return a < b
        if isinstance(op, ast.GtE):
            return a >= b
        if isinstance(op, ast.LtE):
            return a <= b
    if isinstance(e, ast.Tuple):
        return tuple(ev(x, env) for x in e.elts)
    raise Unknown(ast.unparse(e))

