"""
Tiny evaluator for guard expressions over small abstract domains (tuples of None / 'X', integers): constants, names from
an environment, and/or/not, comparisons, len(), all()/any() over a one-generator comprehension, constant subscripts.
Anything else raises ``Unknown`` (callers turn that into an ANALYSIS-ERROR: the guard is outside the evaluated fragment).
Only expression ASTs extracted from the analysed source are interpreted here; no code of the repository is executed.
"""
import ast


class Unknown(Exception):
    pass

def ev(e, env):
    if isinstance(e, ast.Constant):
        return e.value
    if isinstance(e, ast.Name):
        if e.id in env:
            return env[e.id]
        raise Unknown(e.id)
    if isinstance(e, ast.BoolOp):            # short-circuit like Python
        res = isinstance(e.op, ast.And)
        for v in e.values:
            res = ev(v, env)
            if bool(res) != isinstance(e.op, ast.And):
                return res
        return res
    if isinstance(e, ast.UnaryOp) and isinstance(e.op, ast.Not):
        return not ev(e.operand, env)
    if isinstance(e, ast.Subscript):
        v = ev(e.value, env)
        i = ev(e.slice, env)
        try:
            return v[i]
        except (IndexError, TypeError):
            return 'X'
    if isinstance(e, ast.Call) and isinstance(e.func, ast.Name) and e.func.id == 'len' and len(e.args) == 1:
        return len(ev(e.args[0], env))
    if isinstance(e, ast.Call) and isinstance(e.func, ast.Name) and e.func.id in ('all', 'any') and len(e.args) == 1 \
            and isinstance(e.args[0], ast.GeneratorExp) and len(e.args[0].generators) == 1 and isinstance(e.args[0].generators[0].target, ast.Name):
        g = e.args[0].generators[0]
        seq = ev(g.iter, env)
        vals = [ev(e.args[0].elt, {**env, g.target.id: x}) for x in seq if all(ev(i, {**env, g.target.id: x}) for i in g.ifs)]
        return all(vals) if e.func.id == 'all' else any(vals)
    if isinstance(e, ast.Compare) and len(e.ops) == 1:
        a, b = ev(e.left, env), ev(e.comparators[0], env)
        op = e.ops[0]
        if isinstance(op, ast.Is):
            return a is b
        if isinstance(op, ast.IsNot):
            return a is not b
        if isinstance(op, ast.Eq):
            return a == b
        if isinstance(op, ast.NotEq):
            return a != b
        if isinstance(op, ast.Gt):
            return a > b
        if isinstance(op, ast.Lt):
            return a < b
        if isinstance(op, ast.GtE):
            return a >= b
        if isinstance(op, ast.LtE):
            return a <= b
    if isinstance(e, ast.Tuple):
        return tuple(ev(x, env) for x in e.elts)
    raise Unknown(ast.unparse(e))



def _ev_ext(e, env):
    """expression forms needed by run_block on top of ``ev``: slices, tuple concatenation / integer arithmetic,
    ``seq.index(x)``, ``tuple(<generator>)``, generator / list comprehensions with one generator, conditional expressions."""
    if isinstance(e, ast.Attribute):
        # attribute of an object modelled by the caller (abstract node, `self`, a namespace of constructors)
        base = _ev_ext(e.value, env)
        try:
            return getattr(base, e.attr)
        except AttributeError:
            raise Unknown(ast.unparse(e))
    if isinstance(e, ast.Call) and isinstance(e.func, ast.Attribute) and e.func.attr != 'index':
        fn = _ev_ext(e.func, env)
        if not callable(fn):
            raise Unknown(ast.unparse(e.func))
        args = [_ev_ext(a, env) for a in e.args if not isinstance(a, ast.Starred)]
        kws = {k.arg: _ev_ext(k.value, env) for k in e.keywords if k.arg is not None}
        return fn(*args, **kws)
    if isinstance(e, ast.Call) and isinstance(e.func, ast.Name) and e.func.id in ('any', 'all') and len(e.args) == 1:
        vals = [bool(v) for v in _ev_ext(e.args[0], env)]
        return any(vals) if e.func.id == 'any' else all(vals)
    if isinstance(e, ast.BinOp) and isinstance(e.op, (ast.BitAnd, ast.BitOr)):
        a, b = _ev_ext(e.left, env), _ev_ext(e.right, env)
        return (a & b) if isinstance(e.op, ast.BitAnd) else (a | b)
    if isinstance(e, ast.Subscript) and isinstance(e.slice, ast.Slice):
        v = _ev_ext(e.value, env)
        lo = _ev_ext(e.slice.lower, env) if e.slice.lower is not None else None
        hi = _ev_ext(e.slice.upper, env) if e.slice.upper is not None else None
        st = _ev_ext(e.slice.step, env) if e.slice.step is not None else None
        return v[lo:hi:st]
    if isinstance(e, ast.Subscript):
        v = _ev_ext(e.value, env)
        i = _ev_ext(e.slice, env)
        try:
            return v[i]
        except (IndexError, TypeError, KeyError) as exc:
            raise Unknown(f'{ast.unparse(e)} fails: {exc!r}')
    if isinstance(e, ast.BinOp) and isinstance(e.op, (ast.Add, ast.Sub)):
        a, b = _ev_ext(e.left, env), _ev_ext(e.right, env)
        return a + b if isinstance(e.op, ast.Add) else a - b
    if isinstance(e, ast.UnaryOp) and isinstance(e.op, ast.USub):
        return -_ev_ext(e.operand, env)
    if isinstance(e, ast.Call) and isinstance(e.func, ast.Attribute) and e.func.attr == 'index' and len(e.args) == 1:
        return _ev_ext(e.func.value, env).index(_ev_ext(e.args[0], env))
    if isinstance(e, ast.Call) and isinstance(e.func, ast.Name) and callable(env.get(e.func.id)) and not e.keywords:
        # a helper modelled by the caller (e.g. as_tuple / is_iterable over abstract objects)
        return env[e.func.id](*[_ev_ext(a, env) for a in e.args])
    if isinstance(e, ast.Call) and isinstance(e.func, ast.Name) and e.func.id == 'hasattr' and len(e.args) == 2:
        return hasattr(_ev_ext(e.args[0], env), _ev_ext(e.args[1], env))
    if isinstance(e, ast.Call) and isinstance(e.func, ast.Name) and e.func.id in ('tuple', 'list', 'as_tuple') and len(e.args) == 1:
        return tuple(_ev_ext(e.args[0], env))
    if isinstance(e, ast.Call) and isinstance(e.func, ast.Name) and e.func.id == 'enumerate' and len(e.args) == 1 and not e.keywords:
        return tuple(enumerate(_ev_ext(e.args[0], env)))
    if isinstance(e, ast.Call) and isinstance(e.func, ast.Name) and e.func.id == 'zip' and not e.keywords:
        return tuple(zip(*[_ev_ext(a, env) for a in e.args]))
    if isinstance(e, ast.Call) and isinstance(e.func, ast.Name) and e.func.id == 'range' and not e.keywords:
        return tuple(range(*[_ev_ext(a, env) for a in e.args]))
    if isinstance(e, ast.Call) and isinstance(e.func, ast.Name) and e.func.id == 'len' and len(e.args) == 1:
        return len(_ev_ext(e.args[0], env))
    if isinstance(e, (ast.GeneratorExp, ast.ListComp)) and len(e.generators) == 1:
        g = e.generators[0]
        out = []
        for x in _ev_ext(g.iter, env):
            env2 = dict(env)
            _bind(g.target, x, env2)
            if all(_ev_ext(i, env2) for i in g.ifs):
                out.append(_ev_ext(e.elt, env2))
        return tuple(out)
    if isinstance(e, ast.IfExp):
        return _ev_ext(e.body, env) if _ev_ext(e.test, env) else _ev_ext(e.orelse, env)
    if isinstance(e, ast.Tuple):
        return tuple(_ev_ext(x, env) for x in e.elts)
    if isinstance(e, ast.Compare) and len(e.ops) == 1 and isinstance(e.ops[0], (ast.In, ast.NotIn)):
        a, b = _ev_ext(e.left, env), _ev_ext(e.comparators[0], env)
        return (a in b) if isinstance(e.ops[0], ast.In) else (a not in b)
    if isinstance(e, (ast.BoolOp, ast.Compare)) or (isinstance(e, ast.UnaryOp) and isinstance(e.op, ast.Not)):
        # re-use ev's operators but evaluate the operands with the extended forms
        if isinstance(e, ast.BoolOp):        # short-circuit like Python
            res = isinstance(e.op, ast.And)
            for v in e.values:
                res = _ev_ext(v, env)
                if bool(res) != isinstance(e.op, ast.And):
                    return res
            return res
        if isinstance(e, ast.UnaryOp):
            return not _ev_ext(e.operand, env)
        tmp = {'__l': _ev_ext(e.left, env), '__r': _ev_ext(e.comparators[0], env)}
        return ev(ast.Compare(left=ast.Name(id='__l'), ops=e.ops, comparators=[ast.Name(id='__r')]), tmp)
    return ev(e, env)


def _bind(target, value, env):
    if isinstance(target, ast.Name):
        env[target.id] = value
    elif isinstance(target, (ast.Tuple, ast.List)):
        stars = [i for i, t in enumerate(target.elts) if isinstance(t, ast.Starred)]
        value = tuple(value)
        if not stars:
            if len(value) != len(target.elts):
                raise Unknown('unpack length mismatch')
            for t, v in zip(target.elts, value):
                _bind(t, v, env)
        else:
            k = stars[0]
            after = len(target.elts) - k - 1
            if len(value) < len(target.elts) - 1:
                raise Unknown('unpack length mismatch')
            for t, v in zip(target.elts[:k], value[:k]):
                _bind(t, v, env)
            _bind(target.elts[k].value, tuple(value[k:len(value) - after]), env)
            for t, v in zip(target.elts[k + 1:], value[len(value) - after:]):
                _bind(t, v, env)
    else:
        raise Unknown(ast.unparse(target))


ev_ext = _ev_ext


class Returned(Exception):
    def __init__(self, value):
        super().__init__('return')
        self.value = value


def run_function(fnode, env):
    """Execute the body of a function definition over ``env``; returns the value of the first ``return`` reached."""
    body = fnode.body
    if body and isinstance(body[0], ast.Expr) and isinstance(body[0].value, ast.Constant):
        body = body[1:]
    try:
        run_block(body, env)
    except Returned as r:
        return r.value
    return None


def run_block(stmts, env):
    """Execute straight-line assignments / if statements over tuples, strings and integers in ``env`` (modified in place)."""
    for st in stmts:
        if isinstance(st, ast.Return):
            raise Returned(_ev_ext(st.value, env) if st.value is not None else None)
        if isinstance(st, ast.For):
            for x in _ev_ext(st.iter, env):
                _bind(st.target, x, env)
                run_block(st.body, env)
            continue
        if isinstance(st, ast.Assign):
            v = _ev_ext(st.value, env)
            for t in st.targets:
                _bind(t, v, env)
        elif isinstance(st, ast.If):
            run_block(st.body if _ev_ext(st.test, env) else st.orelse, env)
        elif isinstance(st, ast.Expr) and isinstance(st.value, ast.Constant):
            continue
        elif isinstance(st, (ast.Pass, ast.Assert)):
            continue                    # assertions state preconditions of the caller's abstract inputs
        elif isinstance(st, ast.Expr) and isinstance(st.value, ast.Call):
            _ev_ext(st.value, env)      # a call for its effect on a caller-modelled object (e.g. a logger stub)
        elif isinstance(st, ast.FunctionDef):
            def _closure(*a, _fn=st, _env=env):
                e2 = dict(_env)
                e2.update({p.arg: v for p, v in zip(_fn.args.args, a)})
                return run_function(_fn, e2)
            env[st.name] = _closure
        else:
            raise Unknown(ast.unparse(st)[:60])
    return env
