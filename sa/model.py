"""
E0 -- resolved program model of /repo (and the third-party sources loki's
classes inherit from), built from source text only.

Nothing is imported or executed: every fact is read off ``ast`` trees.
"""
import ast
import os
import sys
import hashlib

REPO = os.environ.get('VERIF_REPO', '/repo')
SITE = os.environ.get('VERIF_SITE', '/venv/lib/python3.12/site-packages')

# top-level packages that are parsed (everything else is "external")
PARSED_PACKAGES = ('loki', 'lint_rules', 'pymbolic', 'fparser')


class AnalysisError(Exception):
    """The analysis itself cannot be carried out (vanished anchor, unresolved
    base, unrecognised idiom).  Mapped to exit status 2, never to a pass."""


class External:
    """A class / object that lives outside the parsed packages."""
    _cache = {}

    def __new__(cls, dotted):
        if dotted not in cls._cache:
            obj = super().__new__(cls)
            obj.dotted = dotted
            obj.name = dotted.rsplit('.', 1)[-1]
            cls._cache[dotted] = obj
        return cls._cache[dotted]

    def __repr__(self):
        return f'<External {self.dotted}>'


OBJECT = External('builtins.object')

BUILTIN_CLASS_NAMES = {
    'object', 'dict', 'list', 'tuple', 'set', 'frozenset', 'str', 'int', 'float',
    'Exception', 'RuntimeError', 'ValueError', 'TypeError', 'KeyError', 'type',
    'NotImplementedError', 'AttributeError', 'bytes', 'bool', 'complex',
}


class FunctionInfo:
    def __init__(self, node, module, cls=None):
        self.node = node
        self.name = node.name
        self.module = module
        self.cls = cls
        self.decorators = [ast.unparse(d) for d in node.decorator_list]

    @property
    def qualname(self):
        if self.cls is not None:
            return f'{self.cls.name}.{self.name}'
        return self.name

    @property
    def fqn(self):
        return f'{self.module.name}.{self.qualname}'

    @property
    def where(self):
        return f'{self.module.relpath}:{self.node.lineno}'

    @property
    def params(self):
        a = self.node.args
        return [x.arg for x in a.posonlyargs + a.args + a.kwonlyargs]

    def __repr__(self):
        return f'<Function {self.fqn}>'


class Member:
    """One entry of a class namespace."""
    def __init__(self, name, kind, node, owner, annotation=None):
        self.name = name
        self.kind = kind            # 'func' | 'attr'
        self.node = node            # FunctionDef | value expression (or None)
        self.owner = owner
        self.annotation = annotation
        self.lineno = getattr(node, 'lineno', None) if kind != 'class' else node.node.lineno

    def __repr__(self):
        return f'<Member {self.owner.name}.{self.name} {self.kind}>'


class ClassInfo:
    def __init__(self, node, module):
        self.node = node
        self.name = node.name
        self.module = module
        self.decorators = [ast.unparse(d) for d in node.decorator_list]
        self.members = {}
        self.own_fields = []        # (name, annotation ast, default ast|None) in order
        self._collect(node.body)
        self._bases = None
        self._mro = None

    def _collect(self, body):
        for st in body:
            if isinstance(st, (ast.FunctionDef, ast.AsyncFunctionDef)):
                # property setters etc. share a name: keep the first def under
                # the plain name and later ones under name@decorator
                key = st.name
                if key in self.members and self.members[key].kind == 'func':
                    deco = [ast.unparse(d) for d in st.decorator_list]
                    suffix = next((d.split('.')[-1] for d in deco if '.' in d), 'redef')
                    key = f'{st.name}@{suffix}'
                self.members[key] = Member(key, 'func', st, self)
            elif isinstance(st, ast.Assign):
                for t in st.targets:
                    if isinstance(t, ast.Name):
                        self.members[t.id] = Member(t.id, 'attr', st.value, self)
            elif isinstance(st, ast.AnnAssign) and isinstance(st.target, ast.Name):
                self.own_fields.append((st.target.id, st.annotation, st.value))
                self.members[st.target.id] = Member(st.target.id, 'attr', st.value, self,
                                                    annotation=st.annotation)
            elif isinstance(st, ast.ClassDef):
                inner = ClassInfo(st, self.module)
                inner.outer = self
                self.members[st.name] = Member(st.name, 'class', inner, self)
            elif isinstance(st, (ast.If, ast.Try)):
                for sub in ast.iter_child_nodes(st):
                    if isinstance(sub, ast.stmt):
                        self._collect([sub])
                    elif isinstance(sub, ast.ExceptHandler):
                        self._collect(sub.body)

    outer = None

    def nested(self, name):
        m = self.members.get(name)
        return m.node if m is not None and m.kind == 'class' else None

    @property
    def fqn(self):
        if self.outer is not None:
            return f'{self.outer.fqn}.{self.name}'
        return f'{self.module.name}.{self.name}'

    @property
    def where(self):
        return f'{self.module.relpath}:{self.node.lineno}'

    def function(self, name):
        m = self.members.get(name)
        if m is not None and m.kind == 'func':
            return FunctionInfo(m.node, self.module, self)
        return None

    @property
    def is_dataclass(self):
        return any('dataclass' in d for d in self.decorators)

    def __repr__(self):
        return f'<Class {self.fqn}>'


class ModuleInfo:
    def __init__(self, name, path, src, relpath, is_pkg):
        self.name = name
        self.path = path
        self.relpath = relpath
        self.src = src
        self.is_pkg = is_pkg
        self.tree = ast.parse(src, filename=path)
        self.imports = {}      # local name -> ('mod', modname) | ('from', modname, attr)
        self.stars = []
        self.classes = {}
        self.functions = {}
        self.assigns = {}
        self.all = None
        self._collect(self.tree.body)

    @property
    def package(self):
        return self.name if self.is_pkg else self.name.rpartition('.')[0]

    def _abs(self, node):
        if node.level == 0:
            return node.module
        base = self.package.split('.')
        if node.level > 1:
            base = base[:-(node.level - 1)]
        return '.'.join(base + ([node.module] if node.module else []))

    def _collect(self, body):
        for st in body:
            if isinstance(st, ast.Import):
                for a in st.names:
                    if a.asname:
                        self.imports[a.asname] = ('mod', a.name)
                    else:
                        top = a.name.split('.')[0]
                        self.imports[top] = ('mod', top)
            elif isinstance(st, ast.ImportFrom):
                mod = self._abs(st)
                for a in st.names:
                    if a.name == '*':
                        self.stars.append(mod)
                    else:
                        self.imports[a.asname or a.name] = ('from', mod, a.name)
            elif isinstance(st, ast.ClassDef):
                self.classes[st.name] = ClassInfo(st, self)
            elif isinstance(st, (ast.FunctionDef, ast.AsyncFunctionDef)):
                self.functions[st.name] = FunctionInfo(st, self)
            elif isinstance(st, ast.Assign):
                for t in st.targets:
                    if isinstance(t, ast.Name):
                        self.assigns[t.id] = st.value
                        if t.id == '__all__':
                            self.all = _fold_all(st.value)
                    elif isinstance(t, ast.Tuple) and isinstance(st.value, ast.Tuple) \
                            and len(t.elts) == len(st.value.elts):
                        for tt, vv in zip(t.elts, st.value.elts):
                            if isinstance(tt, ast.Name):
                                self.assigns[tt.id] = vv
            elif isinstance(st, ast.AugAssign):
                if isinstance(st.target, ast.Name) and st.target.id == '__all__' and self.all is not None:
                    extra = _fold_all(st.value)
                    if extra:
                        self.all = self.all + extra
            elif isinstance(st, ast.AnnAssign) and isinstance(st.target, ast.Name) and st.value is not None:
                self.assigns[st.target.id] = st.value
            elif isinstance(st, (ast.If, ast.Try, ast.With)):
                for sub in ast.iter_child_nodes(st):
                    if isinstance(sub, ast.stmt):
                        self._collect([sub])
                    elif isinstance(sub, ast.ExceptHandler):
                        self._collect(sub.body)

    def __repr__(self):
        return f'<Module {self.name}>'


def _fold_all(v):
    if isinstance(v, (ast.List, ast.Tuple)):
        out = []
        for e in v.elts:
            if isinstance(e, ast.Constant) and isinstance(e.value, str):
                out.append(e.value)
        return out
    return None


class AssignRef:
    """A module-level name bound to an expression."""
    def __init__(self, module, name, value):
        self.module, self.name, self.value = module, name, value

    def __repr__(self):
        return f'<Assign {self.module.name}.{self.name}>'


NOFOLD = object()


class Model:
    """Lazy, source-only model of the repository."""

    def __init__(self, repo=None, overlay=None):
        self.repo = os.path.abspath(repo or REPO)
        self.roots = [self.repo, os.path.join(self.repo, 'lint_rules'), SITE]
        self.overlay = dict(overlay or {})   # abs path (or repo-relative) -> source
        self.modules = {}
        self.missing = set()
        self.consulted = {}                  # relpath -> sha1

    # -- loading -----------------------------------------------------------
    def _find(self, modname):
        parts = modname.split('.')
        if parts[0] not in PARSED_PACKAGES:
            return None
        for root in self.roots:
            base = os.path.join(root, *parts)
            for cand, pkg in ((base + '.py', False), (os.path.join(base, '__init__.py'), True)):
                if cand in self.overlay or os.path.isfile(cand):
                    return cand, pkg
        return None

    def read(self, path):
        """Source text of a file (overlay first)."""
        if not os.path.isabs(path):
            path = os.path.join(self.repo, path)
        if path in self.overlay:
            return self.overlay[path]
        with open(path, encoding='utf-8') as f:
            return f.read()

    def relpath(self, path):
        if path.startswith(self.repo + os.sep):
            return os.path.relpath(path, self.repo)
        if path.startswith(SITE + os.sep):
            return 'site-packages/' + os.path.relpath(path, SITE)
        return path

    def module(self, modname):
        if modname in self.modules:
            return self.modules[modname]
        if modname in self.missing:
            return None
        found = self._find(modname)
        if not found:
            self.missing.add(modname)
            return None
        path, pkg = found
        src = self.read(path)
        rel = self.relpath(path)
        try:
            mod = ModuleInfo(modname, path, src, rel, pkg)
        except SyntaxError as e:
            raise AnalysisError(f'cannot parse {rel}: {e}') from e
        self.modules[modname] = mod
        self.consulted[rel] = hashlib.sha1(src.encode()).hexdigest()
        return mod

    def module_by_path(self, relpath):
        """Module for a repo-relative path such as ``loki/ir/find.py``."""
        p = relpath[:-3] if relpath.endswith('.py') else relpath
        if p.startswith('lint_rules/'):
            p = p[len('lint_rules/'):]
        name = p.replace('/', '.')
        if name.endswith('.__init__'):
            name = name[:-9]
        mod = self.module(name)
        if mod is None:
            raise AnalysisError(f'anchor file vanished: {relpath}')
        return mod

    def all_repo_modules(self, include_tests=False, packages=('loki', 'lint_rules/lint_rules')):
        out = []
        for pkg in packages:
            top = os.path.join(self.repo, pkg)
            for dp, dn, fn in os.walk(top):
                dn[:] = sorted(d for d in dn if d != '__pycache__' and (include_tests or d != 'tests'))
                for f in sorted(fn):
                    if f.endswith('.py'):
                        rel = os.path.relpath(os.path.join(dp, f), self.repo)
                        out.append(self.module_by_path(rel))
        return out

    # -- name resolution -----------------------------------------------------
    def resolve(self, mod, name, _seen=None):
        """Resolve a global name used in module ``mod``."""
        _seen = _seen or set()
        key = (mod.name, name)
        if key in _seen:
            return None
        _seen.add(key)
        if name in mod.classes:
            return mod.classes[name]
        if name in mod.functions:
            return mod.functions[name]
        if name in mod.imports:
            imp = mod.imports[name]
            if imp[0] == 'mod':
                return self.module(imp[1]) or External(imp[1])
            _, src, attr = imp
            sub = self.module(f'{src}.{attr}')
            srcmod = self.module(src)
            if srcmod is None:
                if sub is not None:
                    return sub
                return External(f'{src}.{attr}')
            got = self.resolve(srcmod, attr, _seen)
            if got is None and sub is not None:
                return sub
            return got
        if name in mod.assigns:
            v = mod.assigns[name]
            if isinstance(v, ast.Name) and v.id != name:
                got = self.resolve(mod, v.id, _seen)
                if got is not None:
                    return got
            if isinstance(v, ast.Attribute):
                got = self.resolve_expr(mod, v)
                if isinstance(got, (ClassInfo, FunctionInfo)):
                    return got
            return AssignRef(mod, name, v)
        for star in mod.stars:
            smod = self.module(star)
            if smod is None:
                continue
            if smod.all is not None and name not in smod.all:
                continue
            if smod.all is None and name.startswith('_'):
                continue
            got = self.resolve(smod, name, _seen)
            if got is not None:
                return got
        if name in BUILTIN_CLASS_NAMES:
            return External(f'builtins.{name}')
        return None

    def resolve_expr(self, mod, expr, cls=None):
        """Resolve a Name / dotted Attribute expression to a model object."""
        if isinstance(expr, ast.Name):
            if cls is not None and expr.id in cls.members:
                return cls.members[expr.id]
            return self.resolve(mod, expr.id)
        if isinstance(expr, ast.Attribute):
            base = self.resolve_expr(mod, expr.value, cls)
            if isinstance(base, ModuleInfo):
                got = self.resolve(base, expr.attr)
                if got is None:
                    sub = self.module(f'{base.name}.{expr.attr}')
                    return sub
                return got
            if isinstance(base, ClassInfo):
                got = self.lookup(base, expr.attr)
                if got is not None and got.kind == 'class':
                    return got.node
                return got
            if isinstance(base, External):
                return External(f'{base.dotted}.{expr.attr}')
            return None
        if isinstance(expr, ast.Subscript):     # Generic[T] bases
            return self.resolve_expr(mod, expr.value, cls)
        return None

    # -- classes ---------------------------------------------------------------
    def bases(self, cls):
        if cls._bases is None:
            out = []
            for b in cls.node.bases:
                got = self.resolve_expr(cls.module, b)
                if isinstance(got, (ClassInfo, External)):
                    out.append(got)
                else:
                    out.append(External('unresolved.' + ast.unparse(b)))
            cls._bases = out
        return cls._bases

    def mro(self, cls):
        if isinstance(cls, External):
            return [cls] if cls is OBJECT else [cls, OBJECT]
        if cls._mro is None:
            seqs = [self.mro(b)[:] for b in self.bases(cls)] + [list(self.bases(cls))]
            res = [cls]
            seqs = [s for s in seqs if s]
            while seqs:
                for s in seqs:
                    cand = s[0]
                    if not any(cand in t[1:] for t in seqs):
                        break
                else:
                    raise AnalysisError(f'inconsistent MRO for {cls.fqn}')
                res.append(cand)
                seqs = [[x for x in s if x is not cand] for s in seqs]
                seqs = [s for s in seqs if s]
            if OBJECT not in res:
                res.append(OBJECT)
            else:
                res = [r for r in res if r is not OBJECT] + [OBJECT]
            cls._mro = res
        return cls._mro

    def unresolved_bases(self, cls):
        return [b.dotted for b in self.mro(cls) if isinstance(b, External) and b.dotted.startswith('unresolved.')]

    def is_subclass(self, cls, other):
        if isinstance(other, str):
            return any(getattr(c, 'name', None) == other for c in self.mro(cls))
        return other in self.mro(cls)

    def lookup(self, cls, name, after=None):
        """Member ``name`` along the MRO of ``cls`` (optionally after class
        ``after``, i.e. what ``super(after, self).name`` finds)."""
        mro = self.mro(cls)
        if after is not None:
            mro = mro[mro.index(after) + 1:]
        for c in mro:
            if isinstance(c, ClassInfo) and name in c.members:
                return c.members[name]
        return None

    def member_function(self, cls, name, after=None, _depth=0):
        """Follow aliases (``visit_list = visit_tuple``) to a FunctionInfo."""
        m = self.lookup(cls, name, after) if not isinstance(name, Member) else name
        if m is None or _depth > 5:
            return None
        if m.kind == 'func':
            return FunctionInfo(m.node, m.owner.module, m.owner)
        v = m.node
        if isinstance(v, ast.Name):
            if v.id in m.owner.members and v.id != m.name:
                return self.member_function(m.owner, m.owner.members[v.id], _depth=_depth + 1)
            got = self.resolve(m.owner.module, v.id)
            if isinstance(got, FunctionInfo):
                return got
            return None
        if isinstance(v, ast.Attribute):
            got = self.resolve_expr(m.owner.module, v, m.owner)
            if isinstance(got, Member):
                return self.member_function(got.owner, got, _depth=_depth + 1)
            if isinstance(got, FunctionInfo):
                return got
        if isinstance(v, ast.Call) and isinstance(v.func, ast.Name) and v.func.id in ('staticmethod', 'classmethod') and v.args:
            fake = Member(m.name, 'attr', v.args[0], m.owner)
            return self.member_function(m.owner, fake, _depth=_depth + 1)
        return None

    def all_member_names(self, cls):
        names = {}
        for c in reversed(self.mro(cls)):
            if isinstance(c, ClassInfo):
                for n in c.members:
                    names[n] = c
        return names

    def dataclass_fields(self, cls):
        """Ordered dict name -> (annotation ast, default ast, owner) merged along the MRO
        like ``dataclasses`` does (base first, re-declaration keeps position)."""
        out = {}
        for c in reversed(self.mro(cls)):
            if isinstance(c, ClassInfo) and c.is_dataclass:
                for n, ann, dflt in c.own_fields:
                    if n.startswith('_') and 'ClassVar' in ast.unparse(ann):
                        continue
                    out[n] = (ann, dflt, c)
        return out

    def class_attr(self, cls, name):
        """Value AST of a plain class attribute along the MRO."""
        m = self.lookup(cls, name)
        if m is not None and m.kind == 'attr':
            return m.node, m.owner
        return None, None

    def subclasses(self, base, modules):
        out = []
        for mod in modules:
            for c in mod.classes.values():
                if c is not base and base in self.mro(c):
                    out.append(c)
        return out

    def get_class(self, relpath, name):
        mod = self.module_by_path(relpath)
        if '.' in name:
            outer, inner = name.split('.', 1)
            c = self.get_class(relpath, outer)
            for part in inner.split('.'):
                m = self.lookup(c, part)
                if m is None or m.kind != 'class':
                    raise AnalysisError(f'anchor class vanished: {relpath}:{name}')
                c = m.node
            return c
        c = mod.classes.get(name)
        if c is None:
            got = self.resolve(mod, name)
            if isinstance(got, ClassInfo):
                return got
            raise AnalysisError(f'anchor class vanished: {relpath}:{name}')
        return c

    def get_function(self, relpath, qualname):
        mod = self.module_by_path(relpath)
        if '.' in qualname:
            cn, fn = qualname.split('.', 1)
            c = self.get_class(relpath, cn)
            f = c.function(fn)
            if f is None:
                f = self.member_function(c, fn)
            if f is None:
                raise AnalysisError(f'anchor method vanished: {relpath}:{qualname}')
            return f
        f = mod.functions.get(qualname)
        if f is None:
            raise AnalysisError(f'anchor function vanished: {relpath}:{qualname}')
        return f

    # -- constant folding ------------------------------------------------------
    def const(self, mod, expr, cls=None, _depth=0):
        if _depth > 12 or expr is None:
            return NOFOLD
        if isinstance(expr, ast.Constant):
            return expr.value
        if isinstance(expr, (ast.Tuple, ast.List, ast.Set)):
            vals = [self.const(mod, e, cls, _depth + 1) for e in expr.elts]
            if any(v is NOFOLD for v in vals):
                return NOFOLD
            return tuple(vals) if not isinstance(expr, ast.List) else list(vals)
        if isinstance(expr, ast.JoinedStr):
            out = ''
            for v in expr.values:
                if isinstance(v, ast.Constant):
                    out += v.value
                else:
                    return NOFOLD
            return out
        if isinstance(expr, ast.BinOp):
            l = self.const(mod, expr.left, cls, _depth + 1)
            r = self.const(mod, expr.right, cls, _depth + 1)
            if l is NOFOLD or r is NOFOLD:
                return NOFOLD
            try:
                if isinstance(expr.op, ast.Add):
                    return l + r
                if isinstance(expr.op, ast.Sub):
                    return l - r
                if isinstance(expr.op, ast.Mult):
                    return l * r
                if isinstance(expr.op, ast.BitOr):
                    return l | r
                if isinstance(expr.op, ast.Mod) and isinstance(l, str):
                    return l % r
            except Exception:       # pylint: disable=broad-except
                return NOFOLD
            return NOFOLD
        if isinstance(expr, ast.UnaryOp) and isinstance(expr.op, ast.USub):
            v = self.const(mod, expr.operand, cls, _depth + 1)
            return -v if isinstance(v, (int, float)) else NOFOLD
        if isinstance(expr, ast.Call):
            fn = expr.func
            fname = fn.id if isinstance(fn, ast.Name) else (fn.attr if isinstance(fn, ast.Attribute) else None)
            if fname == 'intern' and len(expr.args) == 1:
                return self.const(mod, expr.args[0], cls, _depth + 1)
            return NOFOLD
        if isinstance(expr, (ast.Name, ast.Attribute)):
            got = self.resolve_expr(mod, expr, cls)
            if isinstance(got, AssignRef):
                return self.const(got.module, got.value, None, _depth + 1)
            if isinstance(got, Member) and got.kind == 'attr':
                return self.const(got.owner.module, got.node, got.owner, _depth + 1)
            return NOFOLD
        return NOFOLD


# ---------------------------------------------------------------------------
# small AST helpers shared by rules

def dotted(expr):
    """'a.b.c' for Name/Attribute chains, else None."""
    parts = []
    while isinstance(expr, ast.Attribute):
        parts.append(expr.attr)
        expr = expr.value
    if isinstance(expr, ast.Name):
        parts.append(expr.id)
        return '.'.join(reversed(parts))
    if isinstance(expr, ast.Call) and isinstance(expr.func, ast.Name) and expr.func.id == 'super':
        parts.append('super()')
        return '.'.join(reversed(parts))
    return None


def call_name(call):
    """Last component of the callee of a Call node."""
    f = call.func
    if isinstance(f, ast.Name):
        return f.id
    if isinstance(f, ast.Attribute):
        return f.attr
    return None


def walk_no_nested(node, include_lambdas=True):
    """ast.walk that does not descend into nested function/class definitions."""
    stack = list(ast.iter_child_nodes(node))
    while stack:
        n = stack.pop()
        yield n
        if isinstance(n, (ast.FunctionDef, ast.AsyncFunctionDef, ast.ClassDef)):
            continue
        if isinstance(n, ast.Lambda) and not include_lambdas:
            continue
        stack.extend(ast.iter_child_nodes(n))


def norm(node):
    """Normalised source text of an AST node (position independent)."""
    return ast.unparse(node)


def attr_reads(func_node, var):
    """Set of attribute names read as ``var.<attr>`` inside a function body."""
    out = set()
    for n in ast.walk(func_node):
        if isinstance(n, ast.Attribute) and isinstance(n.value, ast.Name) and n.value.id == var:
            out.add(n.attr)
        elif isinstance(n, ast.Call) and isinstance(n.func, ast.Name) and n.func.id in ('getattr', 'hasattr') \
                and len(n.args) >= 2 and isinstance(n.args[0], ast.Name) and n.args[0].id == var \
                and isinstance(n.args[1], ast.Constant):
            out.add(n.args[1].value)
    return out
