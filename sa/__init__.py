"""Static-analysis machinery for the loki properties (see /verif/DESIGN.md)."""
