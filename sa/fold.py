"""Must-be-case-folded analysis shared by C23 / C44."""
import ast

FOLDED_ATTRS = {'name', 'scope_name', 'local_name'}     # attributes of existing items (folded by induction)


def _has_lower(node):
    return any(isinstance(n, ast.Call) and isinstance(n.func, ast.Attribute) and n.func.attr in ('lower', 'casefold')
               for n in ast.walk(node))


def _enclosing_functions(mod):
    out = []
    for n in ast.walk(mod.tree):
        if isinstance(n, (ast.FunctionDef, ast.AsyncFunctionDef)):
            out.append(n)
    return out


def _whole_lower(expr):
    """the whole value passes through .lower(): x.lower(), f'..'.lower(), x.lower().strip(), str(x).lower()[1:]"""
    n = expr
    while True:
        if isinstance(n, ast.Call) and isinstance(n.func, ast.Attribute):
            if n.func.attr in ('lower', 'casefold'):
                return True
            if n.func.attr in ('strip', 'rstrip', 'lstrip', 'replace', 'split', 'rsplit', 'partition', 'format'):
                n = n.func.value
                continue
            return False
        if isinstance(n, ast.Subscript):
            n = n.value
            continue
        if isinstance(n, (ast.Tuple, ast.List, ast.GeneratorExp, ast.ListComp)):
            elts = n.elts if isinstance(n, (ast.Tuple, ast.List)) else [n.elt]
            return bool(elts) and all(_whole_lower(e) for e in elts)
        if isinstance(n, ast.Call) and isinstance(n.func, ast.Name) and n.func.id in ('tuple', 'as_tuple', 'list', 'str') and n.args:
            n = n.args[0]
            continue
        return False


def classify(expr, fn, depth=0, at=None):
    """'folded' | ('param', name) | 'unfolded' for a name expression inside function node fn."""
    if _whole_lower(expr):
        return 'folded'
    if isinstance(expr, ast.IfExp):
        res = [classify(v, fn, depth, at) for v in (expr.body, expr.orelse)]
        return 'folded' if all(r == 'folded' for r in res) else [r for r in res if r != 'folded'][0]
    if isinstance(expr, ast.Attribute) and expr.attr in FOLDED_ATTRS and isinstance(expr.value, ast.Name) \
            and ('item' in expr.value.id.lower() or expr.value.id in ('self', 'it', '_it')):
        return 'folded'        # name of an already existing Item (folded by induction)
    if isinstance(expr, ast.Constant):
        return 'folded' if str(expr.value) == str(expr.value).lower() else 'unfolded'
    if isinstance(expr, ast.JoinedStr):
        parts = [v.value for v in expr.values if isinstance(v, ast.FormattedValue)]
        res = [classify(p, fn, depth, at) for p in parts]
        if all(r == 'folded' for r in res):
            return 'folded'
        bad = [r for r in res if r != 'folded']
        return bad[0]
    if isinstance(expr, ast.BoolOp):
        res = [classify(v, fn, depth, at) for v in expr.values]
        return 'folded' if all(r == 'folded' for r in res) else [r for r in res if r != 'folded'][0]
    if isinstance(expr, ast.Subscript):
        return classify(expr.value, fn, depth, at)
    if isinstance(expr, ast.Call) and isinstance(expr.func, ast.Attribute) and expr.func.attr in ('rsplit', 'split', 'replace', 'strip'):
        return classify(expr.func.value, fn, depth, at)
    if isinstance(expr, ast.Name) and at is not None and depth < 6:
        # flow-sensitive shortcut: the latest unconditional (top-level) assignment before the use decides
        last = None
        for st in fn.body:
            if isinstance(st, ast.Assign) and st.lineno < at and any(
                    isinstance(t, ast.Name) and t.id == expr.id for t in st.targets):
                last = st
        if last is not None:
            return classify(last.value, fn, depth + 1, at=last.lineno)
    if isinstance(expr, ast.Name):
        params = [a.arg for a in fn.args.args + fn.args.kwonlyargs]
        assigns = []
        for n in ast.walk(fn):
            if isinstance(n, ast.Assign):
                for t in n.targets:
                    for tt in ast.walk(t):
                        if isinstance(tt, ast.Name) and tt.id == expr.id and isinstance(tt.ctx, ast.Store):
                            assigns.append(n.value)
            elif isinstance(n, ast.NamedExpr) and n.target.id == expr.id:
                assigns.append(n.value)
            elif isinstance(n, (ast.For, ast.comprehension)):
                for tt in ast.walk(n.target):
                    if isinstance(tt, ast.Name) and tt.id == expr.id:
                        assigns.append(n.iter)
        if assigns and depth < 4:
            res = [classify(a, fn, depth + 1) for a in assigns if not (isinstance(a, ast.Name) and a.id == expr.id)]
            if expr.id in params:
                res.append(('param', expr.id))
            if all(r == 'folded' for r in res):
                return 'folded'
            return [r for r in res if r != 'folded'][0]
        if expr.id in params:
            return ('param', expr.id)
        return 'unfolded'
    return 'unfolded'


